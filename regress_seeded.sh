#!/bin/bash
# runs every seeded change against its property's check(s), default seed
cd "$(dirname "$(readlink -f "$0")")"
for d in seeded/*/; do
  id=$(basename $d); p=${id%%-*}
  checks=$p
  grep -q "\"status\": \"retired" $d/meta.json && { echo "$id :: retired"; continue; }
  r=$(./run_mutant.sh $d/patch.diff $checks 2>&1 | grep -E "^== |signature:" | head -3 | tr '\n' ' ')
  echo "$id :: $r"
done
echo REGRESS-DONE
