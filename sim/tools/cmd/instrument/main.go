// instrument rewrites a SCRATCH COPY of gleece so that every source of
// iteration-order nondeterminism and the clock go through the verifsim runtime.
//
//	instrument -dir <scratch gleece copy> -runtime <dir with verifsim.go> -sites <out.json>
//
// Rewrites are textual insertions at type-resolved positions, so comments and
// layout of the original files are untouched. Exit 2 on anything it cannot
// handle (never silently skip an unordered source).
package main

import (
	"encoding/json"
	"flag"
	"fmt"
	"go/ast"
	"go/token"
	"go/types"
	"os"
	"path/filepath"
	"sort"
	"strings"

	"golang.org/x/tools/go/packages"
)

const modPath = "github.com/gopher-fleece/gleece/v2"
const rtImport = modPath + "/verifsim"

type Site struct {
	ID      string `json:"id"`
	Kind    string `json:"kind"` // range | toslice | pkgload | glob | clock | mapskeys | mapsvalues
	File    string `json:"file"`
	Line    int    `json:"line"`
	KeyType string `json:"key_type,omitempty"`
	Family  string `json:"family"`
}

type joinEdit struct {
	call *ast.CallExpr
	id   string
}

type edit struct {
	off  int
	text string
	seq  int
}

func die(format string, a ...any) {
	fmt.Fprintf(os.Stderr, "instrument: "+format+"\n", a...)
	os.Exit(2)
}

func main() {
	dir := flag.String("dir", "", "scratch copy of gleece")
	rt := flag.String("runtime", "", "directory holding verifsim.go")
	sitesOut := flag.String("sites", "", "write site list here")
	flag.Parse()
	if *dir == "" || *rt == "" {
		die("usage: instrument -dir D -runtime R [-sites F]")
	}
	abs, err := filepath.Abs(*dir)
	if err != nil {
		die("%v", err)
	}

	// install the runtime package first so the rewritten tree builds
	if err := os.MkdirAll(filepath.Join(abs, "verifsim"), 0o755); err != nil {
		die("%v", err)
	}
	src, err := os.ReadFile(filepath.Join(*rt, "verifsim.go"))
	if err != nil {
		die("%v", err)
	}
	if err := os.WriteFile(filepath.Join(abs, "verifsim", "verifsim.go"), src, 0o644); err != nil {
		die("%v", err)
	}

	cfg := &packages.Config{
		Mode: packages.NeedName | packages.NeedFiles | packages.NeedSyntax | packages.NeedTypes |
			packages.NeedTypesInfo | packages.NeedImports | packages.NeedDeps | packages.NeedCompiledGoFiles,
		Dir:   abs,
		Tests: false,
	}
	pkgs, err := packages.Load(cfg, "./...")
	if err != nil {
		die("load: %v", err)
	}
	var sites []Site
	var warnings []string
	nerr := 0
	for _, p := range pkgs {
		for _, e := range p.Errors {
			fmt.Fprintln(os.Stderr, "instrument: package error:", e)
			nerr++
		}
	}
	if nerr > 0 {
		die("the tree does not type-check")
	}
	sort.Slice(pkgs, func(i, j int) bool { return pkgs[i].PkgPath < pkgs[j].PkgPath })
	for _, p := range pkgs {
		if !strings.HasPrefix(p.PkgPath, modPath) || p.PkgPath == rtImport {
			continue
		}
		rel := strings.TrimPrefix(strings.TrimPrefix(p.PkgPath, modPath), "/")
		if strings.HasPrefix(rel, "e2e") || strings.HasPrefix(rel, "test") || strings.HasPrefix(rel, "verifharness") {
			continue
		}
		for i, f := range p.Syntax {
			fname := p.CompiledGoFiles[i]
			if strings.HasSuffix(fname, "_test.go") {
				continue
			}
			s, w := rewriteFile(p, f, fname, rel, abs)
			sites = append(sites, s...)
			warnings = append(warnings, w...)
		}
	}
	sort.Slice(sites, func(i, j int) bool { return sites[i].ID < sites[j].ID })
	for i := 1; i < len(sites); i++ {
		if sites[i].ID == sites[i-1].ID {
			die("duplicate site id %s", sites[i].ID)
		}
	}
	if *sitesOut != "" {
		b, _ := json.MarshalIndent(map[string]any{"sites": sites, "warnings": warnings}, "", " ")
		if err := os.WriteFile(*sitesOut, b, 0o644); err != nil {
			die("%v", err)
		}
	}
	fmt.Printf("instrument: %d sites, %d warnings\n", len(sites), len(warnings))
}

func funcName(fd *ast.FuncDecl) string {
	if fd == nil {
		return "_pkg"
	}
	if fd.Recv != nil && len(fd.Recv.List) > 0 {
		t := fd.Recv.List[0].Type
		star := ""
		if s, ok := t.(*ast.StarExpr); ok {
			star = "*"
			t = s.X
		}
		if ix, ok := t.(*ast.IndexExpr); ok {
			t = ix.X
		}
		if ix, ok := t.(*ast.IndexListExpr); ok {
			t = ix.X
		}
		if id, ok := t.(*ast.Ident); ok {
			return star + id.Name + "." + fd.Name.Name
		}
	}
	return fd.Name.Name
}

func family(kind, rel, fn string) string {
	switch kind {
	case "pkgload":
		return "packages"
	case "glob":
		return "globs"
	case "toslice":
		return "sets"
	case "clock":
		return "clock"
	}
	switch {
	case strings.HasPrefix(rel, "graphs/symboldg"):
		return "graph"
	case strings.HasPrefix(rel, "core/arbitrators"):
		return "files"
	case strings.HasPrefix(rel, "core/validators/paths"):
		return "trie"
	case strings.HasPrefix(rel, "generator"):
		return "generator"
	}
	return "other"
}

func isPkgFunc(info *types.Info, call *ast.CallExpr, pkgPath, name string) bool {
	sel, ok := call.Fun.(*ast.SelectorExpr)
	if !ok {
		return false
	}
	obj := info.Uses[sel.Sel]
	if obj == nil || obj.Pkg() == nil {
		return false
	}
	if _, isFunc := obj.(*types.Func); !isFunc {
		return false
	}
	// only package-level functions
	if sig, ok := obj.Type().(*types.Signature); ok && sig.Recv() != nil {
		return false
	}
	return obj.Pkg().Path() == pkgPath && obj.Name() == name
}

func rewriteFile(p *packages.Package, f *ast.File, fname, rel, root string) ([]Site, []string) {
	info := p.TypesInfo
	fset := p.Fset
	tf := fset.File(f.Pos())
	var edits []edit
	var joins []joinEdit
	var sites []Site
	var warnings []string
	counters := map[string]int{}
	keep := map[string]bool{} // expressions that keep an import used after its only use was rewritten
	seq := 0
	add := func(pos token.Pos, text string) {
		edits = append(edits, edit{off: tf.Offset(pos), text: text, seq: seq})
		seq++
	}
	relFile, _ := filepath.Rel(root, fname)
	mkSite := func(kind string, fd *ast.FuncDecl, at token.Pos, keyType string) string {
		fn := funcName(fd)
		ck := fn + "|" + kind
		n := counters[ck]
		counters[ck] = n + 1
		id := fmt.Sprintf("%s.%s#%s%d", rel, fn, kind, n)
		sites = append(sites, Site{ID: id, Kind: kind, File: relFile, Line: fset.Position(at).Line, KeyType: keyType, Family: family(kind, rel, fn)})
		return id
	}

	var visit func(n ast.Node, fd *ast.FuncDecl)
	visit = func(root ast.Node, fd *ast.FuncDecl) {
		ast.Inspect(root, func(n ast.Node) bool {
			switch x := n.(type) {
			case *ast.FuncDecl:
				if x != root {
					visit(x, x)
					return false
				}
			case *ast.GoStmt:
				// go f(x) -> verifsim.Go("site", func() { f(x) }): queued, run by the next Join in a seeded order
				id := mkSite("go", fd, x.Pos(), "")
				edits = append(edits, edit{off: tf.Offset(x.Pos()), text: fmt.Sprintf("verifsim.Go(%q, func() { /*go*/", id), seq: seq})
				seq++
				// skip the "go" keyword itself by commenting it out: "go" is 2 bytes at x.Pos()
				edits = append(edits, edit{off: tf.Offset(x.Pos()), text: "/*", seq: seq})
				seq++
				edits = append(edits, edit{off: tf.Offset(x.Pos()) + 2, text: "*/", seq: seq})
				seq++
				add(x.End(), " })")
				warnings = append(warnings, fmt.Sprintf("%s:%d: go statement: serialised by the simulator (queued until the next Wait)", relFile, fset.Position(x.Pos()).Line))
			case *ast.SelectStmt:
				warnings = append(warnings, fmt.Sprintf("%s:%d: select statement", relFile, fset.Position(x.Pos()).Line))
			case *ast.RangeStmt:
				t := info.TypeOf(x.X)
				if t == nil {
					die("%s:%d: no type for range operand", relFile, fset.Position(x.Pos()).Line)
				}
				var mt *types.Map
				switch u := t.Underlying().(type) {
				case *types.Map:
					mt = u
				case *types.Interface:
					// a type parameter: map only if its core type is a map
					if tp, ok := t.(*types.TypeParam); ok {
						if m, ok := coreMap(tp); ok {
							mt = m
						}
					}
				}
				if mt != nil {
					kt := mt.Key()
					if !keyOK(kt) {
						die("%s:%d: range over map with key type %s: no canonical order defined", relFile, fset.Position(x.Pos()).Line, kt)
					}
					id := mkSite("range", fd, x.Pos(), kt.String())
					add(x.X.Pos(), "verifsim.M(")
					add(x.X.End(), fmt.Sprintf(", %q)", id))
				}
			case *ast.CallExpr:
				if sel, ok := x.Fun.(*ast.SelectorExpr); ok {
					// mapset methods with unordered results
					if s := info.Selections[sel]; s != nil && s.Kind() == types.MethodVal {
						if fnObj, ok := s.Obj().(*types.Func); ok && fnObj.Pkg() != nil &&
							strings.HasPrefix(fnObj.Pkg().Path(), "github.com/deckarep/golang-set") {
							switch fnObj.Name() {
							case "ToSlice":
								id := mkSite("toslice", fd, x.Pos(), "")
								add(x.Pos(), "verifsim.S(")
								add(x.End(), fmt.Sprintf(", %q)", id))
							case "Each", "Iter", "Iterator", "Pop", "String", "MarshalJSON":
								die("%s:%d: mapset.%s has an unordered result and no rewrite rule", relFile, fset.Position(x.Pos()).Line, fnObj.Name())
							}
						}
						if fnObj, ok := s.Obj().(*types.Func); ok && fnObj.Pkg() != nil && fnObj.Pkg().Path() == "reflect" {
							switch fnObj.Name() {
							case "MapKeys", "MapRange":
								die("%s:%d: reflect.%s has an unordered result and no rewrite rule", relFile, fset.Position(x.Pos()).Line, fnObj.Name())
							}
						}
						if fnObj, ok := s.Obj().(*types.Func); ok && fnObj.Pkg() != nil && fnObj.Name() == "Wait" &&
							(fnObj.Pkg().Path() == "sync" || fnObj.Pkg().Path() == "golang.org/x/sync/errgroup") {
							// run everything queued by verifsim.Go before waiting for it
							id := mkSite("join", fd, x.Pos(), "")
							joins = append(joins, joinEdit{call: x, id: id})
						}
						if fnObj, ok := s.Obj().(*types.Func); ok && fnObj.Pkg() != nil && fnObj.Pkg().Path() == "sync" && fnObj.Name() == "Range" {
							die("%s:%d: sync.Map.Range has no rewrite rule", relFile, fset.Position(x.Pos()).Line)
						}
					}
					switch {
					case isPkgFunc(info, x, "golang.org/x/tools/go/packages", "Load"):
						// packages.Load(cfg, pats...) -> verifsim.Load("site", cfg, pats...): owns the result order AND
						// the order in which the project's files enter the FileSet
						id := mkSite("pkgload", fd, x.Pos(), "")
						// second site of the same call: the order in which the project's files enter the FileSet
						sites = append(sites, Site{ID: id + "/parse", Kind: "parseorder", File: relFile, Line: fset.Position(x.Pos()).Line, Family: "packages"})
						keep[sel.X.(*ast.Ident).Name+".Load"] = true
						edits = append(edits, edit{off: tf.Offset(x.Fun.Pos()), text: "verifsim.Load /*", seq: seq})
						seq++
						edits = append(edits, edit{off: tf.Offset(x.Fun.End()), text: "*/", seq: seq})
						seq++
						add(x.Lparen+1, fmt.Sprintf("%q, ", id))
					case isPkgFunc(info, x, "github.com/bmatcuk/doublestar/v4", "FilepathGlob"),
						isPkgFunc(info, x, "github.com/bmatcuk/doublestar/v4", "Glob"),
						isPkgFunc(info, x, "path/filepath", "Glob"):
						id := mkSite("glob", fd, x.Pos(), "")
						add(x.Pos(), fmt.Sprintf("verifsim.Strs(%q)(", id))
						add(x.End(), ")")
					case isPkgFunc(info, x, "time", "Now"):
						mkSite("clock", fd, x.Pos(), "")
						keep[sel.X.(*ast.Ident).Name+".Now"] = true
						// replace "time.Now" by "verifsim.Now": delete is emulated by commenting out
						edits = append(edits, edit{off: tf.Offset(x.Fun.Pos()), text: "verifsim.Now /*", seq: seq})
						seq++
						edits = append(edits, edit{off: tf.Offset(x.Fun.End()), text: "*/", seq: seq})
						seq++
					case isPkgFunc(info, x, "maps", "Keys"), isPkgFunc(info, x, "maps", "Values"), isPkgFunc(info, x, "maps", "All"):
						name := info.Uses[sel.Sel].Name()
						if len(x.Args) != 1 {
							die("%s:%d: maps.%s with %d args", relFile, fset.Position(x.Pos()).Line, name, len(x.Args))
						}
						fn := map[string]string{"Keys": "Keys", "Values": "Values", "All": "M"}[name]
						id := mkSite("maps"+strings.ToLower(name), fd, x.Pos(), "")
						keep[sel.X.(*ast.Ident).Name+".Clone[map[int]int]"] = true
						edits = append(edits, edit{off: tf.Offset(x.Fun.Pos()), text: "verifsim." + fn + " /*", seq: seq})
						seq++
						edits = append(edits, edit{off: tf.Offset(x.Fun.End()), text: "*/", seq: seq})
						seq++
						add(x.Args[0].End(), fmt.Sprintf(", %q", id))
					case isPkgFunc(info, x, "math/rand", "Intn"), isPkgFunc(info, x, "math/rand", "Int"),
						isPkgFunc(info, x, "math/rand", "Shuffle"), isPkgFunc(info, x, "math/rand", "Perm"),
						isPkgFunc(info, x, "math/rand/v2", "IntN"), isPkgFunc(info, x, "math/rand/v2", "Shuffle"),
						isPkgFunc(info, x, "math/rand/v2", "Perm"), isPkgFunc(info, x, "math/rand/v2", "Int"):
						die("%s:%d: math/rand use has no rewrite rule", relFile, fset.Position(x.Pos()).Line)
					}
				}
			}
			return true
		})
	}
	visit(f, nil)
	for _, jn := range joins {
		// wg.Wait()  ->  verifsim.JoinDo("site", func() { wg.Wait() })     (statement context)
		// err := g.Wait() keeps working through the generic JoinVal: verifsim.JoinVal("site", g.Wait)
		sel := jn.call.Fun.(*ast.SelectorExpr)
		add(jn.call.Pos(), fmt.Sprintf("verifsim.JoinVal(%q, ", jn.id))
		// replace the trailing "()" of the call by ")" : comment out "(" .. ")"
		edits = append(edits, edit{off: tf.Offset(sel.End()), text: ") /*", seq: seq})
		seq++
		edits = append(edits, edit{off: tf.Offset(jn.call.End()), text: "*/", seq: seq})
		seq++
	}

	if len(edits) == 0 {
		return nil, warnings
	}
	// import, right after the package clause
	edits = append(edits, edit{off: tf.Offset(f.Name.End()), text: "\n\nimport verifsim \"" + rtImport + "\"\n", seq: -1})

	src, err := os.ReadFile(fname)
	if err != nil {
		die("%v", err)
	}
	sort.SliceStable(edits, func(i, j int) bool {
		if edits[i].off != edits[j].off {
			return edits[i].off < edits[j].off
		}
		return edits[i].seq < edits[j].seq
	})
	var out []byte
	last := 0
	for _, e := range edits {
		out = append(out, src[last:e.off]...)
		out = append(out, e.text...)
		last = e.off
	}
	out = append(out, src[last:]...)
	var keeps []string
	for k := range keep {
		keeps = append(keeps, k)
	}
	sort.Strings(keeps)
	for _, k := range keeps {
		out = append(out, "\nvar _ = "+k+"\n"...)
	}
	if err := os.WriteFile(fname, out, 0o644); err != nil {
		die("%v", err)
	}
	return sites, warnings
}

func coreMap(tp *types.TypeParam) (*types.Map, bool) {
	iface, ok := tp.Constraint().Underlying().(*types.Interface)
	if !ok {
		return nil, false
	}
	var found *types.Map
	for i := 0; i < iface.NumEmbeddeds(); i++ {
		switch t := iface.EmbeddedType(i).(type) {
		case *types.Union:
			for j := 0; j < t.Len(); j++ {
				if m, ok := t.Term(j).Type().Underlying().(*types.Map); ok {
					found = m
				} else {
					return nil, false
				}
			}
		default:
			if m, ok := t.Underlying().(*types.Map); ok {
				found = m
			}
		}
	}
	return found, found != nil
}

func keyOK(t types.Type) bool {
	if _, ok := t.(*types.TypeParam); ok {
		return true // resolved at run time by value formatting
	}
	switch u := t.Underlying().(type) {
	case *types.Basic:
		return true
	case *types.Struct:
		for i := 0; i < u.NumFields(); i++ {
			if !keyOK(u.Field(i).Type()) {
				return false
			}
		}
		return true
	case *types.Array:
		return keyOK(u.Elem())
	}
	return false // pointers, interfaces, channels: no location-independent text
}
