package main

import (
	"context"
	"encoding/json"
	"fmt"
	"io/fs"
	"os"
	"os/exec"
	"path/filepath"
	"sort"
	"strings"
	"sync"
	"sync/atomic"
	"time"

	"verifsim/tools/projgen"
)

// Job / Result mirror sim/harness/driver.
type Job struct {
	Kind    string   `json:"kind"`
	Dir     string   `json:"dir"`
	Config  string   `json:"config"`
	Command string   `json:"command"`
	Order   string   `json:"order"`
	Now     string   `json:"now"`
	Now2    string   `json:"now2"`
	Calls   []string `json:"calls,omitempty"`
	Render  bool     `json:"render,omitempty"`
	Norm    string   `json:"norm"`
}

type SiteStat struct {
	Hits     int `json:"hits"`
	Permuted int `json:"permuted"`
	MaxN     int `json:"max_n"`
}

type CallObs struct {
	Call  string `json:"call"`
	Err   string `json:"err,omitempty"`
	Diag  string `json:"diag,omitempty"`
	Meta  string `json:"meta,omitempty"`
	Graph string `json:"graph,omitempty"`
}

type Result struct {
	OK           bool                `json:"ok"`
	Err          string              `json:"err,omitempty"`
	Panic        string              `json:"panic,omitempty"`
	DecisionHash string              `json:"decision_hash"`
	Decisions    int                 `json:"decisions"`
	Sites        map[string]SiteStat `json:"sites"`
	Calls        []CallObs           `json:"calls,omitempty"`
}

type ordersim struct {
	s       *Scratch
	modCache string
	goRoot   string
	mu      sync.Mutex
	projDir map[string]string // project hash -> dir
	seq     atomic.Int64
	runs    atomic.Int64
}

func newOrdersim(tag string, withTests bool) *ordersim {
	s := newScratch(tag)
	t0 := time.Now()
	s.copyRepo(withTests)
	s.instrument()
	s.installHarness("driver")
	s.Driver = s.build("driver", "./verifharness/driver")
	fmt.Printf("ordersim: instrumented copy of the working tree built in %.1fs (%d sites, fingerprint %s)\n",
		time.Since(t0).Seconds(), len(s.Sites), s.Fingerprint)
	mc, _ := run("/", nil, "go", "env", "GOMODCACHE")
	gr, _ := run("/", nil, "go", "env", "GOROOT")
	return &ordersim{s: s, projDir: map[string]string{}, modCache: strings.TrimSpace(mc), goRoot: strings.TrimSpace(gr)}
}

func projHash(p *projgen.Project) string {
	b, _ := json.Marshal(p)
	return sha(string(b))
}

// materialise renders a project once per content hash.
func (o *ordersim) materialise(p *projgen.Project) string {
	h := projHash(p)
	o.mu.Lock()
	defer o.mu.Unlock()
	if d, ok := o.projDir[h]; ok {
		return d
	}
	dir := filepath.Join(o.s.Dir, "proj", h)
	if err := p.Render(dir); err != nil {
		harnessFail("render: %v", err)
	}
	sum, err := os.ReadFile(filepath.Join(repoDir, "go.sum"))
	if err == nil {
		os.WriteFile(filepath.Join(dir, "go.sum"), sum, 0o644)
	}
	o.projDir[h] = dir
	return dir
}

func (o *ordersim) norm(projDir string) string {
	return fmt.Sprintf("%s=$P;%s=$M;%s=$G", projDir, o.modCache, o.goRoot)
}

// runDriver executes a job list in ONE fresh process under a watchdog.
func (o *ordersim) runDriver(jobs []Job) []Result {
	return o.runDriverEnv(jobs, nil)
}

func (o *ordersim) runDriverEnv(jobs []Job, extraEnv []string) []Result {
	id := o.seq.Add(1)
	jf := filepath.Join(o.s.Dir, "jobs", fmt.Sprintf("j%d.json", id))
	rf := filepath.Join(o.s.Dir, "jobs", fmt.Sprintf("r%d.json", id))
	os.MkdirAll(filepath.Dir(jf), 0o755)
	b, _ := json.Marshal(jobs)
	os.WriteFile(jf, b, 0o644)
	defer os.Remove(jf)
	defer os.Remove(rf)
	ctx, cancel := context.WithTimeout(context.Background(), 300*time.Second)
	defer cancel()
	cmd := exec.CommandContext(ctx, o.s.Driver, jf, rf)
	cmd.Env = append(os.Environ(), "VERIF_ORDER=", "VERIF_TRACE_OUT=", "VERIF_NOW=")
	out, err := cmd.CombinedOutput()
	o.runs.Add(int64(len(jobs)))
	if ctx.Err() != nil {
		harnessFail("watchdog: driver did not finish within 300 s (jobs %s)\n%s", string(b), clip(string(out), 2000))
	}
	raw, rerr := os.ReadFile(rf)
	if rerr != nil {
		// the process died without writing results: report as a died run on the LAST job
		res := make([]Result, len(jobs))
		for i := range res {
			res[i] = Result{Panic: fmt.Sprintf("driver process died: %v: %s", err, clip(string(out), 600)), Sites: map[string]SiteStat{}}
		}
		return res
	}
	var res []Result
	if err := json.Unmarshal(raw, &res); err != nil || len(res) != len(jobs) {
		harnessFail("driver results unreadable: %v", err)
	}
	return res
}

// ------------------------------------------------------------- C13 run model

type Warm struct {
	OtherProjectSeed uint64 `json:"other_project_seed,omitempty"` // generate this (other) project first
	// SiblingRev: generate a sibling of the SAME project first - identical configuration and relative
	// template paths, other content in the template-extension files (a template edited between two
	// generations of one long-lived process)
	SiblingRev bool   `json:"sibling_rev,omitempty"`
	Engine     string `json:"engine"`
}

type OrderRun struct {
	Engine   string `json:"engine"`
	SkipDate bool   `json:"skip_date"`
	Command  string `json:"command"`
	Now      string `json:"now"`
	Now2     string `json:"now2,omitempty"`
	Order    string `json:"order"` // "" canonical
	Warmups  []Warm `json:"warmups,omitempty"`
	// Relocate > 0: generate from a byte-identical copy of the project in ANOTHER directory whose files
	// carry other (seeded, shuffled) modification times; GoMaxProcs != 0 overrides the driver's GOMAXPROCS
	Relocate   uint64 `json:"relocate,omitempty"`
	GoMaxProcs int    `json:"gomaxprocs,omitempty"`
}

type Artifacts struct {
	Res    Result
	Spec   string
	Routes string
}

const day0 = "2031-05-17T10:00:00Z"
const day1 = "2031-05-18T10:00:00Z"
const straddleA = "2031-05-17T23:59:59Z"
const straddleB = "2031-05-18T00:00:01Z"

func (o *ordersim) execRun(p *projgen.Project, r OrderRun) Artifacts {
	return o.execRunEnv(p, r, nil)
}

// relocated returns a copy of the materialised project under another path with other mtimes.
func (o *ordersim) relocated(p *projgen.Project, salt uint64) string {
	src := o.materialise(p)
	dst := filepath.Join(o.s.Dir, "proj-moved", fmt.Sprintf("m%d-%s", salt%1000, projHash(p)))
	o.mu.Lock()
	defer o.mu.Unlock()
	if _, err := os.Stat(dst); err == nil {
		return dst
	}
	// rendered again rather than copied: other workers create and delete per-run files in src concurrently
	_ = src
	if err := p.Render(dst); err != nil {
		harnessFail("relocate: %v", err)
	}
	if sum, err := os.ReadFile(filepath.Join(repoDir, "go.sum")); err == nil {
		os.WriteFile(filepath.Join(dst, "go.sum"), sum, 0o644)
	}
	rng := projgen.Stream(salt, "mtimes", 0)
	filepath.WalkDir(dst, func(path string, d fs.DirEntry, err error) error {
		if err == nil && !d.IsDir() {
			if strings.HasPrefix(filepath.Base(path), "cfg-") {
				os.Remove(path) // per-run config files of other runs
				return nil
			}
			t := time.Unix(1_600_000_000+int64(rng.Intn(200_000_000)), 0)
			os.Chtimes(path, t, t)
		}
		return nil
	})
	return dst
}

func (o *ordersim) execRunEnv(p *projgen.Project, r OrderRun, extraEnv []string) Artifacts {
	dir := o.materialise(p)
	if r.Relocate != 0 {
		dir = o.relocated(p, r.Relocate)
	}
	if r.GoMaxProcs != 0 {
		extraEnv = append(append([]string{}, extraEnv...), fmt.Sprintf("GOMAXPROCS=%d", r.GoMaxProcs))
	}
	id := o.seq.Add(1)
	outDir := filepath.Join(o.s.Dir, "out", fmt.Sprintf("%d", id))
	os.MkdirAll(outDir, 0o755)
	defer os.RemoveAll(outDir)
	var jobs []Job
	var cfgs []string
	mk := func(pp *projgen.Project, pdir, engine string, skip bool, tag string) string {
		cfg := pp.Config(projgen.ConfigOpts{Engine: engine, RoutesOut: filepath.Join(outDir, tag+"-routes.go"), SpecOut: filepath.Join(outDir, tag+"-spec.json"), SkipDate: skip})
		cf := filepath.Join(pdir, fmt.Sprintf("cfg-%d-%s.json", id, tag))
		os.WriteFile(cf, []byte(cfg), 0o644)
		cfgs = append(cfgs, cf)
		return cf
	}
	for wi, w := range r.Warmups {
		wp, wdir := p, dir
		if w.OtherProjectSeed != 0 {
			wp = projgen.Generate(w.OtherProjectSeed, "order")
			wdir = o.materialise(wp)
		} else if w.SiblingRev {
			wp = cloneProject(p)
			wp.ExtRev = "edited-before"
			wdir = o.materialise(wp)
		}
		cf := mk(wp, wdir, w.Engine, true, fmt.Sprintf("w%d", wi))
		jobs = append(jobs, Job{Kind: "generate", Dir: wdir, Config: cf, Command: "spec-and-routes", Order: r.Order, Now: day0, Norm: o.norm(wdir)})
	}
	cf := mk(p, dir, r.Engine, r.SkipDate, "main")
	jobs = append(jobs, Job{Kind: "generate", Dir: dir, Config: cf, Command: r.Command, Order: r.Order, Now: r.Now, Now2: r.Now2, Norm: o.norm(dir)})
	res := o.runDriverEnv(jobs, extraEnv)
	for _, c := range cfgs {
		os.Remove(c)
	}
	a := Artifacts{Res: res[len(res)-1]}
	if b, err := os.ReadFile(filepath.Join(outDir, "main-spec.json")); err == nil {
		a.Spec = string(b)
	}
	if b, err := os.ReadFile(filepath.Join(outDir, "main-routes.go")); err == nil {
		a.Routes = string(b)
	}
	return a
}

type refKey struct {
	proj     string
	engine   string
	skipDate bool
}

type refCache struct {
	mu sync.Mutex
	m  map[refKey]*Artifacts
}

func (o *ordersim) reference(rc *refCache, p *projgen.Project, engine string, skip bool) *Artifacts {
	k := refKey{projHash(p), engine, skip}
	rc.mu.Lock()
	if a, ok := rc.m[k]; ok {
		rc.mu.Unlock()
		return a
	}
	rc.mu.Unlock()
	a := o.execRun(p, OrderRun{Engine: engine, SkipDate: skip, Command: "spec-and-routes", Now: day0})
	rc.mu.Lock()
	rc.m[k] = &a
	rc.mu.Unlock()
	return &a
}

func stripDate(s string) (rest string, dateLines []string) {
	var keep []string
	for _, l := range strings.Split(s, "\n") {
		if strings.Contains(l, "Generated Date:") {
			dateLines = append(dateLines, strings.TrimSpace(l))
			continue
		}
		keep = append(keep, l)
	}
	return strings.Join(keep, "\n"), dateLines
}

// judgeC13 compares one run with the canonical references. class "" = holds;
// class "rejected" = the reference run itself failed (workload not accepted).
func (o *ordersim) judgeC13(rc *refCache, p *projgen.Project, primaryEngine string, r OrderRun) (class, msg string, art Artifacts) {
	ref := o.reference(rc, p, r.Engine, r.SkipDate)
	if !ref.Res.OK {
		return "rejected", ref.Res.Err + ref.Res.Panic, art
	}
	specRef := ref
	if primaryEngine != r.Engine {
		specRef = o.reference(rc, p, primaryEngine, true)
		if !specRef.Res.OK {
			return "rejected", specRef.Res.Err + specRef.Res.Panic, art
		}
	}
	art = o.execRun(p, r)
	if !art.Res.OK {
		return "run-failed", fmt.Sprintf("the canonical-order run succeeds but this schedule fails: %s%s", clip(art.Res.Err, 400), clip(art.Res.Panic, 400)), art
	}
	wantSpec := r.Command != "routes"
	wantRoutes := r.Command != "spec"
	if wantSpec && art.Spec != specRef.Spec {
		which := "canonical-order run"
		if specRef != ref {
			which = "canonical-order run with engine " + primaryEngine
		}
		return "spec-differs", fmt.Sprintf("spec differs from the %s: %s", which, firstDiff(specRef.Spec, art.Spec)), art
	}
	if wantRoutes {
		if r.SkipDate {
			if art.Routes != ref.Routes {
				return "routes-differs", "routes file differs from the canonical-order run: " + firstDiff(ref.Routes, art.Routes), art
			}
		} else {
			a, ad := stripDate(ref.Routes)
			b, bd := stripDate(art.Routes)
			if a != b {
				return "routes-differs", "routes file differs (outside the date comment) from the canonical-order run: " + firstDiff(a, b), art
			}
			when := r.Now
			if r.Command == "spec,routes" && r.Now2 != "" {
				when = r.Now2
			}
			want := "Generated Date: " + when[:10]
			if len(bd) != 1 || bd[0] != want || len(ad) != 1 {
				return "date-line", fmt.Sprintf("generation-date comment is %q, want exactly one line %q", bd, want), art
			}
		}
	}
	return "", "", art
}

// ---------------------------------------------------------------- schedules

func (o *ordersim) drawRun(r *projgen.Rand, engines []string, allowWarm bool) OrderRun {
	run := OrderRun{Engine: engines[0], Now: day0, Command: "spec-and-routes"}
	if len(engines) > 1 && r.Chance(1, 4) {
		run.Engine = engines[1]
	}
	run.SkipDate = r.Chance(3, 5)
	switch r.Intn(4) {
	case 0:
		run.Command = "spec,routes"
	case 1:
		run.Command = "routes,spec"
	}
	switch r.Intn(4) {
	case 0:
		run.Now = day1
	case 1:
		if run.Command != "spec-and-routes" {
			run.Now, run.Now2 = straddleA, straddleB
		}
	}
	mode := "percall"
	if r.Chance(3, 10) {
		mode = "stable"
	}
	seed := r.U64() & 0xffffffff
	sites := "*"
	fams := o.s.families()
	var famNames []string
	for f := range fams {
		famNames = append(famNames, f)
	}
	sort.Strings(famNames)
	switch k := r.Intn(20); {
	case k < 10:
	case k < 15:
		sites = strings.Join(fams[projgen.Pick(r, famNames)], ",")
	case k < 18:
		ids := o.s.siteIDs()
		projgen.Shuffle(r, ids)
		ids = ids[:len(ids)/2]
		sort.Strings(ids)
		sites = strings.Join(ids, ",")
	default:
		sites = projgen.Pick(r, o.s.siteIDs())
	}
	run.Order = fmt.Sprintf("%d:%s:%s", seed, mode, sites)
	if r.Chance(1, 5) {
		run.Relocate = 1 + r.U64()%997
	}
	if r.Chance(1, 4) {
		run.GoMaxProcs = projgen.Pick(r, []int{1, 4, 8})
	}
	if allowWarm && r.Chance(3, 10) {
		n := r.Range(1, 3)
		for i := 0; i < n; i++ {
			w := Warm{Engine: projgen.Pick(r, projgen.Engines)}
			switch r.Intn(4) {
			case 0, 1:
				w.OtherProjectSeed = 900001 + uint64(r.Intn(3))
			case 2:
				w.SiblingRev = true
				w.Engine = run.Engine
			}
			run.Warmups = append(run.Warmups, w)
		}
	}
	return run
}

func orderParts(order string) (seed, mode string, sites []string, all bool) {
	parts := strings.SplitN(order, ":", 3)
	if len(parts) != 3 {
		return "", "", nil, false
	}
	if parts[2] == "*" {
		return parts[0], parts[1], nil, true
	}
	if parts[2] == "-" || parts[2] == "" {
		return parts[0], parts[1], nil, false
	}
	return parts[0], parts[1], strings.Split(parts[2], ","), false
}

func mkOrder(seed, mode string, sites []string) string {
	if len(sites) == 0 {
		return seed + ":" + mode + ":-"
	}
	return seed + ":" + mode + ":" + strings.Join(sites, ",")
}
