package main

import (
	"flag"
	"fmt"
	"sync"

	"verifsim/tools/projgen"
)

// cmdSmoke: workload validation — how many generated projects does gleece accept?
func cmdSmoke(args []string) {
	fs := flag.NewFlagSet("smoke", flag.ExitOnError)
	n := fs.Int("n", 30, "projects")
	profile := fs.String("profile", "order", "profile")
	seed := fs.Uint64("seed", 1, "seed")
	fs.Parse(args)
	sim := newOrdersim("smoke", false)
	rc := &refCache{m: map[refKey]*Artifacts{}}
	var mu sync.Mutex
	rej := 0
	parallel(*n, 16, func(i int) {
		ps := projgen.Stream(*seed, "smoke", uint64(i)).U64() & 0xffffffff
		p := projgen.Generate(ps, *profile)
		a := sim.reference(rc, p, projgen.Engines[i%5], true)
		mu.Lock()
		defer mu.Unlock()
		if !a.Res.OK {
			rej++
			fmt.Printf("REJECTED seed=%d: %s %s\n", ps, clip(a.Res.Err, 700), clip(a.Res.Panic, 300))
		}
	})
	fmt.Printf("smoke: %d/%d rejected\n", rej, *n)
	cleanupAll()
}
