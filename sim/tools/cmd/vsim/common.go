package main

import (
	"crypto/sha256"
	"encoding/hex"
	"encoding/json"
	"fmt"
	"os"
	"path/filepath"
	"regexp"
	"sort"
	"strconv"
	"strings"
	"sync"
	"time"
)

// ------------------------------------------------------------------ options

type Opts struct {
	Prop    string
	Tier    string
	Seed    uint64
	Workers int
}

func baseOpts(prop string, args []string) Opts {
	o := Opts{Prop: prop, Tier: "quick", Seed: 1, Workers: 16}
	if len(args) > 0 {
		o.Tier = args[0]
	}
	if v := os.Getenv("VERIF_TIER"); v != "" {
		o.Tier = v
	}
	if o.Tier != "quick" && o.Tier != "thorough" {
		harnessFail("tier must be quick or thorough, got %q", o.Tier)
	}
	if v := os.Getenv("VERIF_SEED"); v != "" {
		n, err := strconv.ParseUint(v, 10, 64)
		if err != nil {
			harnessFail("VERIF_SEED: %v", err)
		}
		o.Seed = n
	}
	if v := os.Getenv("VERIF_WORKERS"); v != "" {
		n, err := strconv.Atoi(v)
		if err == nil && n > 0 {
			o.Workers = n
		}
	}
	fmt.Printf("VERIF_SEED=%d property=%s tier=%s\n", o.Seed, o.Prop, o.Tier)
	return o
}

// ------------------------------------------------------------ known findings

type Finding struct {
	State     string `json:"state"` // known | fixed
	Property  string `json:"property"`
	Signature string `json:"signature"`
	// SignatureRegex (anchored) names a family of signatures that share one root cause
	SignatureRegex string `json:"signature_regex,omitempty"`
	// ReplayFile (relative to /verif): the concrete failing case, re-executed on every run of the
	// property's check so that the KNOWN-FINDING line is printed whenever the defect is still there
	ReplayFiles []string `json:"replay_files,omitempty"`
	WhatFails string `json:"what_fails"`
	Minimal   any    `json:"minimal_case,omitempty"`
	Commit    string `json:"commit,omitempty"`
}

func loadFindings() []Finding {
	raw, err := os.ReadFile(filepath.Join(verifDir, "known_findings.json"))
	if err != nil {
		return nil
	}
	var f struct {
		Findings []Finding `json:"findings"`
	}
	if err := json.Unmarshal(raw, &f); err != nil {
		harnessFail("known_findings.json: %v", err)
	}
	return f.Findings
}

// knownFor returns the known (not fixed) finding with this signature, if any.
func knownFor(prop, sig string) *Finding {
	for _, f := range loadFindings() {
		match := f.Signature == sig
		if !match && f.SignatureRegex != "" {
			if re, err := regexp.Compile("^(?:" + f.SignatureRegex + ")$"); err == nil {
				match = re.MatchString(sig)
			} else {
				harnessFail("known_findings.json: bad signature_regex %q: %v", f.SignatureRegex, err)
			}
		}
		if f.State == "known" && f.Property == prop && match {
			ff := f
			return &ff
		}
	}
	return nil
}

// ------------------------------------------------------------------ reporter

type Violation struct {
	Property  string `json:"property"`
	Signature string `json:"signature"`
	Class     string `json:"class"`
	Message   string `json:"message"`
	Replay    string `json:"replay"`
}

type Reporter struct {
	mu         sync.Mutex
	prop       string
	violations []Violation
	known      map[string]int
	knownText  map[string]string
	printed    map[string]bool
}

func newReporter(prop string) *Reporter {
	return &Reporter{prop: prop, known: map[string]int{}, knownText: map[string]string{}, printed: map[string]bool{}}
}

// Report records a (minimised, replay-confirmed) violation. It prints either a
// KNOWN-FINDING line (once per signature) or a VIOLATION line.
func (r *Reporter) Report(sig, class, msg string, replay any) {
	r.mu.Lock()
	defer r.mu.Unlock()
	if f := knownFor(r.prop, sig); f != nil {
		if !r.printed[f.WhatFails] {
			fmt.Printf("KNOWN-FINDING: property=%s %s [%s]\n", r.prop, f.WhatFails, sig)
			r.printed[f.WhatFails] = true
		}
		r.known[sig]++
		r.knownText[sig] = f.WhatFails
		if dir := os.Getenv("VERIF_SAVE_KNOWN"); dir != "" && r.known[sig] == 1 {
			// harness maintenance: keep the concrete case of a known finding (to be committed under known/)
			os.MkdirAll(dir, 0o755)
			doc := map[string]any{"property": r.prop, "signature": sig, "expected_violation": map[string]string{"class": class, "message": msg}, "case": replay}
			b, _ := json.MarshalIndent(doc, "", " ")
			os.WriteFile(filepath.Join(dir, fmt.Sprintf("%s-%s.json", r.prop, sha(sig)[:8])), b, 0o644)
		}
		return
	}
	for _, v := range r.violations {
		if v.Signature == sig {
			return // one replay file per signature is enough
		}
	}
	path := writeReplay(r.prop, sig, class, msg, replay)
	r.violations = append(r.violations, Violation{Property: r.prop, Signature: sig, Class: class, Message: msg, Replay: path})
	fmt.Printf("VIOLATION property=%s replay=%s\n", r.prop, path)
	fmt.Printf("  signature: %s\n  %s: %s\n", sig, class, msg)
}

func (r *Reporter) Count() int {
	r.mu.Lock()
	defer r.mu.Unlock()
	return len(r.violations)
}

func (r *Reporter) KnownMatched() []string {
	r.mu.Lock()
	defer r.mu.Unlock()
	var out []string
	for s, n := range r.known {
		out = append(out, fmt.Sprintf("%s x%d", s, n))
	}
	sort.Strings(out)
	return out
}

func writeReplay(prop, sig, class, msg string, body any) string {
	dir := filepath.Join(verifDir, "replays")
	os.MkdirAll(dir, 0o755)
	h := sha256.Sum256([]byte(sig + "|" + msg))
	path := filepath.Join(dir, fmt.Sprintf("%s-%s.json", prop, hex.EncodeToString(h[:])[:10]))
	doc := map[string]any{
		"property":           prop,
		"signature":          sig,
		"expected_violation": map[string]string{"class": class, "message": msg},
		"case":               body,
	}
	b, _ := json.MarshalIndent(doc, "", " ")
	if err := os.WriteFile(path, b, 0o644); err != nil {
		harnessFail("cannot write replay: %v", err)
	}
	return path
}

// ------------------------------------------------------------------ evidence

type Evidence struct {
	PropertyID  string         `json:"property_id"`
	Tier        string         `json:"tier"`
	Seed        uint64         `json:"seed"`
	Level       string         `json:"level"`
	Coverage    map[string]any `json:"coverage"`
	Assumptions []string       `json:"assumptions"`
	WallS       float64        `json:"wall_s"`
	Violations  int            `json:"violations"`
}

func writeEvidence(o Opts, start time.Time, cov map[string]any, assumptions []string, violations int) {
	ev := Evidence{PropertyID: o.Prop, Tier: o.Tier, Seed: o.Seed, Level: "exploration", Coverage: cov,
		Assumptions: assumptions, WallS: time.Since(start).Seconds(), Violations: violations}
	dir := filepath.Join(verifDir, "evidence")
	if os.Getenv("VERIF_REPO") != "" {
		// harness maintenance run against a scratch worktree: not evidence about /repo
		dir = filepath.Join(envOr("VERIF_SCRATCH", "/var/tmp"), "verif.maintenance.evidence")
	}
	os.MkdirAll(dir, 0o755)
	b, _ := json.MarshalIndent(ev, "", " ")
	if err := os.WriteFile(filepath.Join(dir, o.Prop+".json"), b, 0o644); err != nil {
		harnessFail("cannot write evidence: %v", err)
	}
}

func finish(o Opts, rep *Reporter) {
	cleanupAll()
	if rep.Count() > 0 {
		os.Exit(1)
	}
	fmt.Printf("OK property=%s tier=%s: held on everything explored\n", o.Prop, o.Tier)
	os.Exit(0)
}

// ------------------------------------------------------------------ helpers

func sha(s string) string {
	h := sha256.Sum256([]byte(s))
	return hex.EncodeToString(h[:])[:16]
}

func firstDiff(a, b string) string {
	la, lb := strings.Split(a, "\n"), strings.Split(b, "\n")
	for i := 0; i < len(la) || i < len(lb); i++ {
		var x, y string
		if i < len(la) {
			x = la[i]
		}
		if i < len(lb) {
			y = lb[i]
		}
		if x != y {
			return fmt.Sprintf("line %d: reference %q vs run %q", i+1, clip(x, 160), clip(y, 160))
		}
	}
	return "identical"
}

func clip(s string, n int) string {
	if len(s) > n {
		return s[:n] + "…"
	}
	return s
}

// parallel runs fn(i) for i in [0,n) on w workers.
func parallel(n, w int, fn func(i int)) {
	if w < 1 {
		w = 1
	}
	var wg sync.WaitGroup
	ch := make(chan int)
	for k := 0; k < w; k++ {
		wg.Add(1)
		go func() {
			defer wg.Done()
			for i := range ch {
				fn(i)
			}
		}()
	}
	for i := 0; i < n; i++ {
		ch <- i
	}
	close(ch)
	wg.Wait()
}
