package main

import (
	"encoding/json"
	"fmt"
	"os"
	"sort"
	"strings"
	"sync"
	"time"

	"verifsim/tools/projgen"
)

type C13Case struct {
	Fingerprint   string           `json:"tree_fingerprint"`
	VerifSeed     uint64           `json:"verif_seed"`
	Project       *projgen.Project `json:"project"`
	PrimaryEngine string           `json:"primary_engine"`
	Run           OrderRun         `json:"run"`
}

// c13Signature is code-location-stable: artifact kind + the minimal set of
// iteration sites whose order must vary (after minimisation).
func c13Signature(class string, run OrderRun) string {
	_, _, sites, all := orderParts(run.Order)
	s := "*"
	if !all {
		sort.Strings(sites)
		s = strings.Join(sites, "+")
		if s == "" {
			s = "none"
		}
	}
	extra := ""
	if len(run.Warmups) > 0 {
		extra = "|process-reuse"
	}
	if run.Relocate != 0 {
		extra += "|relocated-copy"
	}
	if run.GoMaxProcs != 0 {
		extra += "|gomaxprocs"
	}
	return fmt.Sprintf("C13|%s|%s%s", class, s, extra)
}

type c13Min struct {
	o       *ordersim
	rc      *refCache
	budget  int
	class   string
	deadline time.Time
}

func (m *c13Min) fails(c C13Case) (bool, string) {
	if m.budget <= 0 || time.Now().After(m.deadline) {
		return false, ""
	}
	m.budget--
	class, msg, _ := m.o.judgeC13(m.rc, c.Project, c.PrimaryEngine, c.Run)
	return class == m.class, msg
}

func cloneProject(p *projgen.Project) *projgen.Project {
	b, _ := json.Marshal(p)
	var q projgen.Project
	json.Unmarshal(b, &q)
	return &q
}

// minimise shrinks schedule first, then workload, keeping the violation class.
func (m *c13Min) minimise(c C13Case, msg string) (C13Case, string) {
	try := func(mut func(*C13Case)) bool {
		d := c
		d.Project = cloneProject(c.Project)
		d.Run.Warmups = append([]Warm(nil), c.Run.Warmups...)
		mut(&d)
		ok, mm := m.fails(d)
		if ok {
			c, msg = d, mm
		}
		return ok
	}
	// 1. schedule dimensions toward "canonical, fresh, simple"
	if len(c.Run.Warmups) > 0 {
		try(func(d *C13Case) { d.Run.Warmups = nil })
	}
	if c.Run.Command != "spec-and-routes" {
		try(func(d *C13Case) { d.Run.Command = "spec-and-routes"; d.Run.Now2 = "" })
	}
	if c.Run.Now != day0 || c.Run.Now2 != "" {
		try(func(d *C13Case) { d.Run.Now = day0; d.Run.Now2 = "" })
	}
	if !c.Run.SkipDate {
		try(func(d *C13Case) { d.Run.SkipDate = true })
	}
	if c.Run.Relocate != 0 {
		try(func(d *C13Case) { d.Run.Relocate = 0 })
	}
	if c.Run.GoMaxProcs != 0 {
		try(func(d *C13Case) { d.Run.GoMaxProcs = 0 })
	}
	if c.Run.Engine != c.PrimaryEngine {
		try(func(d *C13Case) { d.Run.Engine = d.PrimaryEngine })
	}
	seed, mode, sites, all := orderParts(c.Run.Order)
	if c.Run.Order != "" {
		// no order freedom at all?
		if try(func(d *C13Case) { d.Run.Order = "" }) {
			sites, all = nil, false
		} else {
			if mode == "percall" {
				if try(func(d *C13Case) { d.Run.Order = strings.Replace(d.Run.Order, ":percall:", ":stable:", 1) }) {
					mode = "stable"
				}
			}
			if all {
				sites = m.o.s.siteIDs()
			}
			// delta debugging over the enabled-site set
			n := 2
			for len(sites) > 1 && m.budget > 0 {
				chunk := (len(sites) + n - 1) / n
				reduced := false
				for i := 0; i < len(sites); i += chunk {
					end := i + chunk
					if end > len(sites) {
						end = len(sites)
					}
					// try the chunk alone
					sub := append([]string(nil), sites[i:end]...)
					if try(func(d *C13Case) { d.Run.Order = mkOrder(seed, mode, sub) }) {
						sites, n, reduced = sub, 2, true
						break
					}
				}
				if !reduced {
					for i := 0; i < len(sites); i += chunk {
						end := i + chunk
						if end > len(sites) {
							end = len(sites)
						}
						comp := append(append([]string(nil), sites[:i]...), sites[end:]...)
						if len(comp) == 0 {
							continue
						}
						if try(func(d *C13Case) { d.Run.Order = mkOrder(seed, mode, comp) }) {
							sites, reduced = comp, true
							if n > 2 {
								n--
							}
							break
						}
					}
				}
				if !reduced {
					if n >= len(sites) {
						break
					}
					n *= 2
					if n > len(sites) {
						n = len(sites)
					}
				}
			}
			if all && len(sites) < len(m.o.s.Sites) {
				c.Run.Order = mkOrder(seed, mode, sites)
			}
		}
	}
	// 2. workload: drop controllers, then methods
	for ci := len(c.Project.Controllers) - 1; ci >= 0 && m.budget > 0; ci-- {
		if len(c.Project.Controllers) <= 1 {
			break
		}
		idx := ci
		try(func(d *C13Case) {
			d.Project.Controllers = append(d.Project.Controllers[:idx], d.Project.Controllers[idx+1:]...)
		})
	}
	for ci := 0; ci < len(c.Project.Controllers) && m.budget > 0; ci++ {
		for mi := len(c.Project.Controllers[ci].Methods) - 1; mi >= 0 && m.budget > 0; mi-- {
			if len(c.Project.Controllers[ci].Methods) <= 1 {
				break
			}
			a, b := ci, mi
			try(func(d *C13Case) {
				ms := d.Project.Controllers[a].Methods
				d.Project.Controllers[a].Methods = append(ms[:b], ms[b+1:]...)
			})
		}
	}
	return c, msg
}

func cmdC13(args []string) {
	o := baseOpts("C13", args)
	start := time.Now()
	nProj, nSched := 10, 12
	if o.Tier == "thorough" {
		nProj, nSched = 150, 40
	}
	if v := os.Getenv("VERIF_C13_PROJECTS"); v != "" {
		fmt.Sscan(v, &nProj)
	}
	sim := newOrdersim("c13", false)
	rc := &refCache{m: map[refKey]*Artifacts{}}
	rep := newReporter("C13")

	type caseT struct {
		c C13Case
	}
	var cases []C13Case
	for i := 0; i < nProj; i++ {
		p := projgen.Generate(projgen.Stream(o.Seed, "c13/project", uint64(i)).U64()&0xffffffff, "order")
		er := projgen.Stream(o.Seed, "c13/engines", uint64(i))
		engs := append([]string(nil), projgen.Engines...)
		projgen.Shuffle(er, engs)
		for j := 0; j < nSched; j++ {
			r := projgen.Stream(o.Seed, "c13/schedule", uint64(i*1000+j))
			cases = append(cases, C13Case{Fingerprint: sim.s.Fingerprint, VerifSeed: o.Seed, Project: p, PrimaryEngine: engs[0], Run: sim.drawRun(r, engs[:2], true)})
		}
	}

	var mu sync.Mutex
	siteAgg := map[string]SiteStat{}
	decisionVectors := map[string]bool{}
	nontrivial := map[string]bool{}
	rejected := map[string]string{}
	artifactHashes := map[string]map[string]bool{}
	dates := map[string]bool{}
	reuseDepth := 0
	evals := 0
	type failT struct {
		c     C13Case
		class string
		msg   string
	}
	var fails []failT
	parallel(len(cases), o.Workers, func(i int) {
		c := cases[i]
		class, msg, art := sim.judgeC13(rc, c.Project, c.PrimaryEngine, c.Run)
		mu.Lock()
		defer mu.Unlock()
		ph := projHash(c.Project)
		if class == "rejected" {
			rejected[ph] = msg
			return
		}
		evals++
		decisionVectors[ph+"/"+art.Res.DecisionHash] = true
		permuted := false
		for s, st := range art.Res.Sites {
			a := siteAgg[s]
			a.Hits += st.Hits
			a.Permuted += st.Permuted
			if st.MaxN > a.MaxN {
				a.MaxN = st.MaxN
			}
			siteAgg[s] = a
			if st.Permuted > 0 {
				permuted = true
			}
		}
		if permuted {
			nontrivial[ph+"/"+art.Res.DecisionHash] = true
		}
		if artifactHashes[ph] == nil {
			artifactHashes[ph] = map[string]bool{}
		}
		if art.Spec != "" {
			artifactHashes[ph]["spec:"+sha(art.Spec)] = true
		}
		dates[c.Run.Now[:10]] = true
		if c.Run.Now2 != "" {
			dates[c.Run.Now2[:10]] = true
		}
		if len(c.Run.Warmups) > reuseDepth {
			reuseDepth = len(c.Run.Warmups)
		}
		if class != "" {
			fails = append(fails, failT{c, class, msg})
		}
	})
	if len(rejected)*10 > nProj && nProj >= 5 {
		for h, m := range rejected {
			fmt.Fprintf(os.Stderr, "rejected workload %s: %s\n", h, clip(m, 300))
		}
		harnessFail("%d of %d generated projects were rejected by gleece: the explored space is not what the evidence would say", len(rejected), nProj)
	}

	// minimise and report: one representative per (class, project) first, then
	// whatever signatures remain new
	sort.Slice(fails, func(i, j int) bool {
		a, b := fails[i], fails[j]
		if a.class != b.class {
			return a.class < b.class
		}
		return len(a.c.Project.Controllers) < len(b.c.Project.Controllers)
	})
	seenSig := map[string]bool{}
	minimised := 0
	maxMin := 6
	if o.Tier == "thorough" {
		maxMin = 14
	}
	for _, f := range fails {
		if minimised >= maxMin {
			break
		}
		mn := &c13Min{o: sim, rc: rc, budget: 80, class: f.class, deadline: time.Now().Add(150 * time.Second)}
		mc, mmsg := mn.minimise(f.c, f.msg)
		minimised++
		sig := c13Signature(f.class, mc.Run)
		if seenSig[sig] {
			continue
		}
		seenSig[sig] = true
		// replay before report: fresh process, same case
		class2, msg2, _ := sim.judgeC13(&refCache{m: map[refKey]*Artifacts{}}, mc.Project, mc.PrimaryEngine, mc.Run)
		if class2 != f.class {
			harnessFail("non-replayable: minimised C13 case gave class %q on re-execution, expected %q (%s)", class2, f.class, msg2)
		}
		rep.Report(sig, f.class, mmsg, mc)
	}
	if len(fails) > 0 && minimised < len(fails) {
		fmt.Printf("note: %d failing runs observed, %d minimised (distinct signatures reported above)\n", len(fails), minimised)
	}

	// evidence
	sitesCov := map[string]any{}
	neverPermuted := []string{}
	for _, s := range sim.s.Sites {
		st := siteAgg[s.ID]
		sitesCov[s.ID] = st
		if st.Permuted == 0 {
			neverPermuted = append(neverPermuted, s.ID)
		}
	}
	maxSpecs := 0
	for _, m := range artifactHashes {
		if len(m) > maxSpecs {
			maxSpecs = len(m)
		}
	}
	var dl []string
	for d := range dates {
		dl = append(dl, d)
	}
	sort.Strings(dl)
	var samples []any
	for i := 0; i < len(cases) && len(samples) < 3; i += len(cases)/3 + 1 {
		samples = append(samples, map[string]any{"project_seed": cases[i].Project.Seed, "controllers": len(cases[i].Project.Controllers), "primary_engine": cases[i].PrimaryEngine, "run": cases[i].Run})
	}
	wall := time.Since(start).Seconds()
	cov := map[string]any{
		"evaluations":         evals,
		"distinct_nontrivial": len(nontrivial),
		"rule": "one evaluation = one simulated gleece generation (fresh process, or 2nd-4th generation in a reused process) of a projgen project under one order schedule, compared byte-for-byte with the canonical-order reference; distinct = distinct (project hash, decision-log hash); non-trivial = at least one iteration site with >= 2 keys was actually visited in a non-canonical order",
		"samples":                   samples,
		"projects":                  nProj,
		"schedules_per_project":     nSched,
		"runs_total_incl_refs":      sim.runs.Load(),
		"runs_per_hour":             int(float64(sim.runs.Load()) / wall * 3600),
		"distinct_decision_vectors": len(decisionVectors),
		"order_sites":               sitesCov,
		"sites_never_permuted":      neverPermuted,
		"max_distinct_spec_hashes_per_project": maxSpecs,
		"simulated_time":            map[string]any{"dates": dl, "note": "gleece reads the clock once per routes generation; the simulated clock is the only clock the instrumented code sees"},
		"process_reuse_depth":       reuseDepth,
		"rejected_workloads":        len(rejected),
		"failing_runs_observed":     len(fails),
		"known_findings_matched":    rep.KnownMatched(),
		"fault_kinds_fired":         map[string]any{"iteration-order permutation": len(nontrivial), "clock jump (next day / midnight straddle)": len(dl) - 1, "process reuse": reuseDepth},
		"components": map[string]any{
			"real": []string{"all gleece packages (instrumented copy of /repo working tree)", "go/packages + go list", "go parser and type checker", "kin-openapi", "libopenapi", "raymond", "x/tools/imports", "file system"},
			"stub": []string{"map/set iteration order, packages.Load order, glob order (seeded permutations)", "wall clock (simulated)"},
		},
		"instrumenter_warnings": sim.s.Warnings,
		"tree_fingerprint":      sim.s.Fingerprint,
	}
	writeEvidence(o, start, cov, []string{
		"every simulated order is one the Go specification permits (keys snapshotted at loop start, deleted keys skipped)",
		"iteration inside dependencies is not instrumented; the closure self-test (all sites canonical => identical output across processes) justifies this",
		"go list is deterministic for a fixed file tree",
	}, rep.Count())
	finish(o, rep)
}
