package main

import (
	"encoding/json"
	"flag"
	"fmt"
	"os"
	"path/filepath"

	"verifsim/tools/projgen"
)

func cmdGen(args []string) {
	fs := flag.NewFlagSet("gen", flag.ExitOnError)
	seed := fs.Uint64("seed", 1, "seed")
	profile := fs.String("profile", "order", "order|router")
	dir := fs.String("dir", "", "output directory")
	engine := fs.String("engine", "gin", "engine for the config")
	fs.Parse(args)
	p := projgen.Generate(*seed, *profile)
	if *dir == "" {
		b, _ := json.MarshalIndent(p, "", " ")
		fmt.Println(string(b))
		return
	}
	abs, _ := filepath.Abs(*dir)
	if err := p.Render(abs); err != nil {
		fmt.Fprintln(os.Stderr, err)
		os.Exit(2)
	}
	cfg := p.Config(projgen.ConfigOpts{Engine: *engine, RoutesOut: filepath.Join(abs, "out", "routes.go"), SpecOut: filepath.Join(abs, "out", "spec.json"), SkipDate: true})
	os.WriteFile(filepath.Join(abs, "gleece.config.json"), []byte(cfg), 0o644)
	b, _ := json.MarshalIndent(p, "", " ")
	os.WriteFile(filepath.Join(abs, "project.json"), b, 0o644)
}
