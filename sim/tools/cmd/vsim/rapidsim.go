package main

import (
	"context"
	"encoding/json"
	"fmt"
	"os"
	"os/exec"
	"path/filepath"
	"regexp"
	"strings"
	"sync"
	"time"

	"verifsim/tools/projgen"
)

// rapid-driven library-level simulations (graphsim = C17, conflictsim = C15):
// the harness package is compiled into a test binary inside the instrumented
// scratch copy and run as N independent processes with derived seeds.

type rapidSim struct {
	prop     string
	pkg      string // harness package (directory under sim/harness)
	testName string
	s        *Scratch
	bin      string
}

func newRapidSim(prop, pkg, testName string) *rapidSim {
	s := newScratch(strings.ToLower(prop))
	t0 := time.Now()
	s.copyRepo(false)
	s.instrument()
	s.installHarness(pkg)
	if out, err := run(s.Gleece, nil, "go", "mod", "edit", "-require=pgregory.net/rapid@v1.3.0"); err != nil {
		harnessFail("go mod edit: %v %s", err, out)
	}
	bin := filepath.Join(s.Dir, "bin", pkg+".test")
	os.MkdirAll(filepath.Dir(bin), 0o755)
	if out, err := run(s.Gleece, nil, "go", "test", "-c", "-trimpath", "-o", bin, "./verifharness/"+pkg); err != nil {
		harnessFail("building %s against the working tree failed: %v\n%s", pkg, err, out)
	}
	fmt.Printf("%s: instrumented copy + harness built in %.1fs (%d sites, fingerprint %s)\n", pkg, time.Since(t0).Seconds(), len(s.Sites), s.Fingerprint)
	return &rapidSim{prop: prop, pkg: pkg, testName: testName, s: s, bin: bin}
}

type rapidFail struct {
	Class     string          `json:"class"`
	Signature string          `json:"signature"`
	Detail    string          `json:"detail"`
	Raw       json.RawMessage `json:"-"`
	FailFile  string          `json:"-"`
	Output    string          `json:"-"`
}

var failRe = regexp.MustCompile(`VERIF-FAIL (\{.*\})`)
var failFileRe = regexp.MustCompile(`-rapid\.failfile="([^"]+)"`)

type procResult struct {
	fail  *rapidFail
	stats map[string]any
	crash string
}

func (r *rapidSim) runProc(idx int, seed uint64, checks int, filter string, failfile string) procResult {
	return r.runProcEnv(idx, seed, checks, filter, failfile, nil)
}

func (r *rapidSim) runProcEnv(idx int, seed uint64, checks int, filter string, failfile string, extraEnv []string) procResult {
	wd := filepath.Join(r.s.Dir, "w", fmt.Sprintf("p%d-%d", idx, time.Now().UnixNano()))
	os.MkdirAll(wd, 0o755)
	statsFile := filepath.Join(wd, "stats.json")
	args := []string{"-test.run", "^" + r.testName + "$", "-test.timeout", "3h"}
	if failfile != "" {
		args = append(args, "-rapid.failfile="+failfile)
	} else {
		args = append(args, fmt.Sprintf("-rapid.checks=%d", checks), fmt.Sprintf("-rapid.seed=%d", seed))
	}
	ctx, cancel := context.WithTimeout(context.Background(), 3*time.Hour)
	defer cancel()
	cmd := exec.CommandContext(ctx, r.bin, args...)
	cmd.Dir = wd
	cmd.Env = append(os.Environ(), "VERIF_STATS_OUT="+statsFile, "VERIF_FILTER="+filter, "GOMAXPROCS=2")
	cmd.Env = append(cmd.Env, extraEnv...)
	out, err := cmd.CombinedOutput()
	res := procResult{}
	if raw, e := os.ReadFile(statsFile); e == nil {
		json.Unmarshal(raw, &res.stats)
	}
	if err == nil {
		return res
	}
	if ctx.Err() != nil {
		harnessFail("watchdog: %s did not finish", r.pkg)
	}
	text := string(out)
	ms := failRe.FindAllStringSubmatch(text, -1)
	if len(ms) == 0 {
		res.crash = clip(stripDraws(text), 3000)
		return res
	}
	// the first VERIF-FAIL line printed after shrinking is the minimal one ("failed after N tests: ...")
	var f rapidFail
	rawJSON := ms[0][1]
	if err := json.Unmarshal([]byte(rawJSON), &f); err != nil {
		res.crash = "unparseable failure: " + clip(rawJSON, 500)
		return res
	}
	f.Raw = json.RawMessage(rawJSON)
	if m := failFileRe.FindStringSubmatch(text); m != nil {
		p := m[1]
		if !filepath.IsAbs(p) {
			p = filepath.Join(wd, p)
		}
		f.FailFile = p
	}
	f.Output = stripDraws(text)
	res.fail = &f
	return res
}

func stripDraws(s string) string {
	var keep []string
	for _, l := range strings.Split(s, "\n") {
		if strings.Contains(l, "[rapid] draw") {
			continue
		}
		keep = append(keep, l)
	}
	return strings.Join(keep, "\n")
}

func mergeStats(dst map[string]any, src map[string]any) {
	for k, v := range src {
		switch x := v.(type) {
		case float64:
			if cur, ok := dst[k].(float64); ok {
				dst[k] = cur + x
			} else {
				dst[k] = x
			}
		case []any:
			cur, _ := dst[k].([]any)
			for _, e := range x {
				if len(cur) < 3 {
					cur = append(cur, e)
				}
			}
			dst[k] = cur
		case map[string]any:
			sub, _ := dst[k].(map[string]any)
			if sub == nil {
				sub = map[string]any{}
			}
			mergeStats(sub, x)
			dst[k] = sub
		}
	}
}

// filterFor maps a known-finding signature to the workload filter token the harness understands.
func filterFor(sig string) string {
	for _, f := range loadFindingsRaw() {
		if f.Signature == sig && f.Filter != "" {
			return f.Filter
		}
	}
	return ""
}

type findingRaw struct {
	State     string `json:"state"`
	Property  string `json:"property"`
	Signature string `json:"signature"`
	Filter    string `json:"filter"`
}

func loadFindingsRaw() []findingRaw {
	raw, err := os.ReadFile(filepath.Join(verifDir, "known_findings.json"))
	if err != nil {
		return nil
	}
	var f struct {
		Findings []findingRaw `json:"findings"`
	}
	json.Unmarshal(raw, &f)
	return f.Findings
}

// explore runs procs processes; on a failure whose signature is a known finding
// it reports it once and re-runs that process with the finding's workload filter.
func (r *rapidSim) explore(o Opts, rep *Reporter, procs, checksPerProc int) (stats map[string]any, processes int) {
	stats = map[string]any{}
	var mu sync.Mutex
	parallel(procs, o.Workers, func(i int) {
		seed := projgen.Stream(o.Seed, r.pkg+"/proc", uint64(i)).U64()>>1 | 1
		filter := ""
		for attempt := 0; attempt < 4; attempt++ {
			pr := r.runProc(i, seed+uint64(attempt)*2, checksPerProc, filter, "")
			mu.Lock()
			processes++
			if pr.stats != nil {
				mergeStats(stats, pr.stats)
			}
			mu.Unlock()
			if pr.crash != "" {
				harnessFail("%s process %d ended abnormally without a property failure:\n%s", r.pkg, i, pr.crash)
			}
			if pr.fail == nil {
				return
			}
			f := pr.fail
			// replay before report: the shrunk fail file must reproduce in a fresh process
			if f.FailFile == "" {
				harnessFail("%s reported a failure but no rapid fail file: %s", r.pkg, clip(f.Output, 1500))
			}
			rp := r.runProc(1000+i, 0, 0, filter, f.FailFile)
			if rp.fail == nil || rp.fail.Class != f.Class {
				harnessFail("non-replayable: %s fail file %s did not reproduce class %q", r.pkg, f.FailFile, f.Class)
			}
			// keep the fail file next to the JSON wrapper
			dst := filepath.Join(verifDir, "replays", fmt.Sprintf("%s-%s.fail", r.prop, sha(f.Signature + f.Detail)[:10]))
			os.MkdirAll(filepath.Dir(dst), 0o755)
			if b, err := os.ReadFile(f.FailFile); err == nil {
				os.WriteFile(dst, b, 0o644)
			}
			rep.Report(f.Signature, f.Class, f.Detail, map[string]any{
				"engine": r.pkg, "tree_fingerprint": r.s.Fingerprint, "verif_seed": o.Seed, "rapid_seed": seed,
				"rapid_failfile": dst, "failure": f.Raw,
			})
			if knownFor(r.prop, f.Signature) == nil {
				return
			}
			tok := filterFor(f.Signature)
			if tok == "" {
				return // known, but no filter: nothing more to explore in this process
			}
			if filter != "" {
				filter += ","
			}
			filter += tok
		}
	})
	return stats, processes
}

func num(m map[string]any, k string) int {
	if v, ok := m[k].(float64); ok {
		return int(v)
	}
	return 0
}

func cmdC17(args []string) {
	o := baseOpts("C17", args)
	start := time.Now()
	procs, checks := 16, 6000
	if o.Tier == "thorough" {
		procs, checks = 64, 120000
	}
	sim := newRapidSim("C17", "graphsim", "TestGraphSim")
	rep := newReporter("C17")
	stats, processes := sim.explore(o, rep, procs, checks)
	wall := time.Since(start).Seconds()
	cov := map[string]any{
		"evaluations":         num(stats, "histories"),
		"distinct_nontrivial": num(stats, "distinct_model_states"),
		"rule":                "one evaluation = one seeded edit history (1-60 operations over 8 declared keys in 3 files, 3 primitives, 4 edge kinds) executed on the real SymbolGraph with per-call simulated map orders and on the set-of-nodes/set-of-edges model, all public answers compared after EVERY operation; distinct_nontrivial = distinct abstract model states reached (summed over processes, each state non-empty by construction)",
		"samples":             stats["samples"],
		"steps":               num(stats, "steps"),
		"ambiguous_stops":     num(stats, "ambiguous_stops"),
		"op_histogram":        stats["op_histogram"],
		"probes":              stats["probes"],
		"processes":           processes,
		"histories_per_hour":  int(float64(num(stats, "histories")) / wall * 3600),
		"simulated_time":      "no clock in this subsystem (file versions are the only notion of time; 3 versions per file)",
		"fault_kinds_fired":   map[string]any{"duplicate delivery (verbatim repeat)": stats["probes"], "per-call map-order permutation": num(stats, "steps")},
		"known_findings_matched": rep.KnownMatched(),
		"components": map[string]any{
			"real": []string{"graphs/symboldg.SymbolGraph and graphs.SymbolKey (instrumented copy of /repo working tree), driven through the exported builder API only"},
			"stub": []string{"AST nodes (idents with fixed positions) and FileVersions are synthetic, as in the repository's own unit tests", "map iteration orders inside the graph (seeded, per call)"},
		},
		"tree_fingerprint": sim.s.Fingerprint,
	}
	writeEvidence(o, start, cov, []string{
		"edges name the current version of an existing endpoint; not-yet-existing endpoints are only named in a file that is never re-versioned (C17 is silent on stale-version endpoints)",
		"a history stops being judged when a dependant is left with edges to never-created keys only (C17 is silent on whether that counts as a dependency)",
		"ordinals and returned slice orders are not compared",
	}, rep.Count())
	finish(o, rep)
}

func cmdC15(args []string) {
	o := baseOpts("C15", args)
	start := time.Now()
	procs, checks := 16, 20000
	if o.Tier == "thorough" {
		procs, checks = 64, 300000
	}
	sim := newRapidSim("C15", "conflictsim", "TestConflictSim")
	rep := newReporter("C15")
	stats, processes := sim.explore(o, rep, procs, checks)
	wall := time.Since(start).Seconds()
	cov := map[string]any{
		"evaluations":         num(stats, "evaluations"),
		"distinct_nontrivial": num(stats, "lists_with_overlap"),
		"rule":                "a case = one route list (0-8 entries over segments a,b,c,{x},{y}, depth 0-4, verbs GET/POST/PUT, with/without leading, doubled, trailing slashes; duplicates and triplicates arise naturally); one evaluation = FindConflicts on one permutation of the list (given, reversed, 3 random) under one of 2 per-call map-order seeds, judged for soundness, per-entry completeness and equality of the flagged set across permutations; distinct_nontrivial = lists that contain at least one overlapping same-verb pair",
		"samples":             stats["samples"],
		"lists":                  num(stats, "lists"),
		"distinct_lists":         num(stats, "distinct_lists"),
		"lists_with_triplicate":  num(stats, "lists_with_triplicate"),
		"processes":              processes,
		"lists_per_hour":         int(float64(num(stats, "lists")) / wall * 3600),
		"simulated_time":         "no clock in this subsystem",
		"fault_kinds_fired":      map[string]any{"discovery-order permutation": num(stats, "evaluations"), "per-call trie map-order permutation": num(stats, "evaluations")},
		"known_findings_matched": rep.KnownMatched(),
		"components": map[string]any{
			"real": []string{"core/validators/paths.FindConflicts (instrumented copy of /repo working tree)"},
			"stub": []string{"route entries are synthetic (distinct ReceiverMeta per entry); discovery order and trie map orders are seeded"},
		},
		"tree_fingerprint": sim.s.Fingerprint,
	}
	writeEvidence(o, start, cov, []string{
		"the reference normalisation drops empty segments (leading/doubled/trailing slashes), as the statement's 'normalised templates'",
		"entries are identified by their ReceiverMeta pointer",
	}, rep.Count())
	finish(o, rep)
}
