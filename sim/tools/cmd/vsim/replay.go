package main

import (
	"encoding/json"
	"fmt"
	"os"
	"strings"

	"verifsim/tools/projgen"
)

// cmdReplay re-executes exactly the case of a replay file in fresh processes,
// against /repo's CURRENT working tree. Exit 1 + the VIOLATION line iff it
// reproduces; exit 2 if it does not reproduce although the tree is the one the
// file was recorded on (non-replayable = harness bug); exit 0 if the tree
// changed and the violation is gone.
func cmdReplay(args []string) {
	if len(args) != 1 {
		harnessFail("usage: vsim replay <file>")
	}
	raw, err := os.ReadFile(args[0])
	if err != nil {
		harnessFail("%v", err)
	}
	var doc struct {
		Property  string `json:"property"`
		Signature string `json:"signature"`
		Expected  struct {
			Class   string `json:"class"`
			Message string `json:"message"`
		} `json:"expected_violation"`
		Case json.RawMessage `json:"case"`
	}
	if err := json.Unmarshal(raw, &doc); err != nil {
		harnessFail("replay file: %v", err)
	}
	fmt.Printf("replay: property=%s signature=%s\n", doc.Property, doc.Signature)
	reproduced, sameTree, detail := false, false, ""
	switch doc.Property {
	case "C13":
		var c C13Case
		if err := json.Unmarshal(doc.Case, &c); err != nil {
			harnessFail("%v", err)
		}
		sim := newOrdersim("replay", false)
		sameTree = sim.s.Fingerprint == c.Fingerprint
		class, msg, _ := sim.judgeC13(&refCache{m: map[refKey]*Artifacts{}}, c.Project, c.PrimaryEngine, c.Run)
		reproduced, detail = class == doc.Expected.Class, class+": "+msg
	case "C19":
		var c C19Case
		if err := json.Unmarshal(doc.Case, &c); err != nil {
			harnessFail("%v", err)
		}
		sim := newOrdersim("replay", false)
		sameTree = sim.s.Fingerprint == c.Fingerprint
		class, msg, _ := sim.judgeC19(&c19RefCache{m: map[string]*c19Ref{}}, c)
		reproduced, detail = class == doc.Expected.Class, class+": "+msg
	case "C15", "C17":
		var c struct {
			Engine      string `json:"engine"`
			Fingerprint string `json:"tree_fingerprint"`
			FailFile    string `json:"rapid_failfile"`
		}
		if err := json.Unmarshal(doc.Case, &c); err != nil {
			harnessFail("%v", err)
		}
		test := map[string]string{"graphsim": "TestGraphSim", "conflictsim": "TestConflictSim"}[c.Engine]
		sim := newRapidSim(doc.Property, c.Engine, test)
		sameTree = sim.s.Fingerprint == c.Fingerprint
		pr := sim.runProc(0, 0, 0, "", c.FailFile)
		if pr.fail != nil {
			reproduced, detail = pr.fail.Class == doc.Expected.Class, pr.fail.Class+": "+pr.fail.Detail
		} else {
			detail = "the fail file passes"
		}
	case "C02", "C03", "C05", "C12":
		var c struct {
			Fingerprint string          `json:"tree_fingerprint"`
			Seed        uint64          `json:"verif_seed"`
			BP          batchProject    `json:"batch_project"`
			Violation   json.RawMessage `json:"violation"`
			Mode        string          `json:"replay_mode"`
			Tier        string          `json:"tier"`
		}
		if err := json.Unmarshal(doc.Case, &c); err != nil {
			harnessFail("%v", err)
		}
		rs := newRouterSim("replay")
		sameTree = rs.s.Fingerprint == c.Fingerprint
		rs.addProjectsTagged([]*projgen.Project{c.BP.Project}, []string{c.BP.Tag}, 5)
		rs.buildBatch()
		if c.Tier == "" {
			c.Tier = "quick"
		}
		replayArg := c.Violation
		if c.Mode == "full-project-history" {
			replayArg = nil // the violation depends on the state earlier requests left in the router: re-run the project's whole seeded workload
		}
		out := rs.runBatch(c.Seed, c.Tier, rs.projects, replayArg)
		for _, v := range out.Violations {
			if v.Signature == doc.Signature {
				reproduced, detail = true, v.Class+": "+v.Message
			}
		}
		if !reproduced {
			var sigs []string
			for _, v := range out.Violations {
				sigs = append(sigs, v.Signature)
			}
			detail = "signatures seen: " + strings.Join(sigs, " ; ")
		}
	default:
		harnessFail("unknown property %q in replay file", doc.Property)
	}
	cleanupAll()
	if reproduced {
		fmt.Printf("VIOLATION property=%s replay=%s\n  %s\n", doc.Property, args[0], clip(detail, 600))
		os.Exit(1)
	}
	if sameTree {
		fmt.Fprintf(os.Stderr, "HARNESS-ERROR: non-replayable: the tree is the one the file was recorded on but the violation did not reproduce (%s)\n", clip(detail, 400))
		os.Exit(2)
	}
	fmt.Printf("replay: does not reproduce on the current tree (%s)\n", clip(detail, 300))
	os.Exit(0)
}
