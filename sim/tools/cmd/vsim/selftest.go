package main

import (
	"context"
	"encoding/json"
	"fmt"
	"os"
	"os/exec"
	"path/filepath"
	"sort"
	"strings"
	"sync"
	"time"

	"verifsim/tools/projgen"
)

// cmdSelftest proves the simulator's own properties (DESIGN.md §2, §3.1, §3.5):
// determinism (same seed => same event log / artifacts, across processes and
// GOMAXPROCS 1/4/16), closure (no iteration source escaped the seam) and
// faithfulness of the rewrite (the repository's own tests pass inside the
// instrumented copy under canonical and random orders). Any failure is exit 2.
func cmdSelftest(args []string) {
	tier := "quick"
	if len(args) > 0 {
		tier = args[0]
	}
	seeds, closureProcs := 8, 10
	if tier == "thorough" {
		seeds, closureProcs = 40, 30
	}
	start := time.Now()
	report := map[string]any{}
	procsList := []string{"1", "4", "16"}

	// ---------------------------------------------------------------- ordersim
	sim := newOrdersim("selftest", true)
	type caseT struct {
		p   *projgen.Project
		run OrderRun
	}
	var cases []caseT
	for i := 0; i < seeds; i++ {
		p := projgen.Generate(projgen.Stream(77, "selftest/project", uint64(i)).U64()&0xffffffff, "order")
		r := projgen.Stream(77, "selftest/run", uint64(i))
		run := sim.drawRun(r, []string{projgen.Engines[i%5], projgen.Engines[(i+1)%5]}, true)
		cases = append(cases, caseT{p, run})
	}
	var mu sync.Mutex
	bad := []string{}
	parallel(len(cases), 6, func(i int) {
		var ref string
		for _, gmp := range procsList {
			a := sim.execRunEnv(cases[i].p, cases[i].run, []string{"GOMAXPROCS=" + gmp})
			key := fmt.Sprintf("ok=%v err=%s panic=%s spec=%s routes=%s decisions=%s/%d", a.Res.OK, a.Res.Err, a.Res.Panic, sha(a.Spec), sha(a.Routes), a.Res.DecisionHash, a.Res.Decisions)
			if ref == "" {
				ref = key
			} else if key != ref {
				mu.Lock()
				bad = append(bad, fmt.Sprintf("ordersim case %d GOMAXPROCS=%s: %s vs %s", i, gmp, key, ref))
				mu.Unlock()
			}
		}
	})
	report["ordersim_determinism"] = map[string]any{"cases": len(cases), "processes_each": len(procsList), "divergences": len(bad)}
	if len(bad) > 0 {
		harnessFail("determinism self-test failed:\n%s", strings.Join(bad, "\n"))
	}

	// closure: all sites canonical => identical artifacts and decision logs
	cp := projgen.Generate(4242, "order")
	keys := map[string]int{}
	parallel(closureProcs, 8, func(i int) {
		a := sim.execRunEnv(cp, OrderRun{Engine: "gin", SkipDate: true, Command: "spec-and-routes", Now: day0}, []string{"GOMAXPROCS=" + procsList[i%3]})
		key := fmt.Sprintf("ok=%v spec=%s routes=%s decisions=%s/%d", a.Res.OK, sha(a.Spec), sha(a.Routes), a.Res.DecisionHash, a.Res.Decisions)
		mu.Lock()
		keys[key]++
		mu.Unlock()
	})
	report["closure"] = map[string]any{"processes": closureProcs, "distinct_results": len(keys)}
	if len(keys) != 1 {
		var ks []string
		for k, n := range keys {
			ks = append(ks, fmt.Sprintf("%dx %s", n, k))
		}
		sort.Strings(ks)
		harnessFail("closure self-test failed: with every site canonical, %d processes gave %d distinct results - an iteration source escaped the seam:\n%s", closureProcs, len(keys), strings.Join(ks, "\n"))
	}

	// faithfulness: the repository's own tests inside the instrumented copy
	pkgs := []string{"./generator/...", "./test/units/graphs/...", "./test/units/validators/...", "./test/units/metadata/...", "./test/sanity/...", "./test/imports/..."}
	orders := []string{"", "11:percall:*", "22:stable:*", "33:percall:*"}
	if tier == "quick" {
		orders = orders[:2]
	}
	for _, ord := range orders {
		ctx, cancel := context.WithTimeout(context.Background(), 20*time.Minute)
		cmd := exec.CommandContext(ctx, "go", append([]string{"test", "-trimpath", "-vet=off", "-count=1"}, pkgs...)...)
		cmd.Dir = sim.s.Gleece
		cmd.Env = append(os.Environ(), "VERIF_ORDER="+ord)
		out, err := cmd.CombinedOutput()
		cancel()
		if err != nil {
			harnessFail("faithfulness self-test failed: the repository's own tests do not pass inside the instrumented copy under VERIF_ORDER=%q:\n%s", ord, clip(lastLines(string(out), 40), 4000))
		}
	}
	report["faithfulness"] = map[string]any{"packages": pkgs, "orders": orders, "result": "repository tests pass inside the instrumented copy"}

	// ------------------------------------------------------- graphsim / conflictsim
	for _, rsDef := range [][3]string{{"C17", "graphsim", "TestGraphSim"}, {"C15", "conflictsim", "TestConflictSim"}} {
		rs := newRapidSim(rsDef[0], rsDef[1], rsDef[2])
		div := 0
		parallel(seeds, 8, func(i int) {
			var ref string
			for _, gmp := range procsList {
				pr := rs.runProcEnv(i, uint64(1000+i*2+1), 400, "", "", []string{"GOMAXPROCS=" + gmp})
				b, _ := json.Marshal(pr.stats)
				if pr.fail != nil {
					b = append(b, []byte(pr.fail.Signature+pr.fail.Detail)...)
				}
				if ref == "" {
					ref = string(b)
				} else if ref != string(b) {
					mu.Lock()
					div++
					bad = append(bad, fmt.Sprintf("%s seed %d GOMAXPROCS=%s: %s vs %s", rsDef[1], i, gmp, clip(string(b), 300), clip(ref, 300)))
					mu.Unlock()
				}
			}
		})
		report[rsDef[1]+"_determinism"] = map[string]any{"seeds": seeds, "processes_each": len(procsList), "divergences": div}
	}
	if len(bad) > 0 {
		harnessFail("determinism self-test failed:\n%s", strings.Join(bad, "\n"))
	}

	// ---------------------------------------------------------------- routersim
	rr := newRouterSim("selftest-router")
	var ps []*projgen.Project
	for i := 0; i < 4; i++ {
		ps = append(ps, projgen.Generate(projgen.Stream(78, "selftest/router", uint64(i)).U64()&0xffffffff, "router"))
	}
	rr.addProjects(ps, 16)
	rr.buildBatch()
	var ref string
	for rep := 0; rep < 2; rep++ {
		for _, gmp := range procsList {
			os.Setenv("VERIF_BATCH_GOMAXPROCS", gmp)
			out := rr.runBatch(5, "quick", rr.projects, nil)
			b, _ := json.Marshal(out)
			if ref == "" {
				ref = string(b)
			} else if ref != string(b) {
				harnessFail("determinism self-test failed: routersim batch output differs between processes (GOMAXPROCS=%s, repetition %d)", gmp, rep)
			}
		}
	}
	os.Unsetenv("VERIF_BATCH_GOMAXPROCS")
	report["routersim_determinism"] = map[string]any{"projects": len(rr.projects), "processes": 6, "divergences": 0}

	report["wall_s"] = time.Since(start).Seconds()
	b, _ := json.MarshalIndent(report, "", " ")
	os.MkdirAll(filepath.Join(verifDir, "evidence"), 0o755)
	os.WriteFile(filepath.Join(verifDir, "evidence", "selftest.json"), b, 0o644)
	fmt.Println(string(b))
	cleanupAll()
	fmt.Println("OK selftest: determinism, closure and faithfulness hold")
}
