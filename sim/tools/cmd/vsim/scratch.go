package main

import (
	"crypto/sha256"
	"encoding/hex"
	"encoding/json"
	"fmt"
	"io"
	"io/fs"
	"os"
	"os/exec"
	"os/signal"
	"path/filepath"
	"sort"
	"strings"
	"syscall"
	"time"
)

// repoDir is /repo; VERIF_REPO exists for harness maintenance only (running the checks against a
// scratch worktree that carries a deliberate defect while other runs read /repo)
var repoDir = envOr("VERIF_REPO", "/repo")

var verifDir = envOr("VERIF_DIR", "/verif")

func envOr(k, d string) string {
	if v := os.Getenv(k); v != "" {
		return v
	}
	return d
}

type Site struct {
	ID      string `json:"id"`
	Kind    string `json:"kind"`
	File    string `json:"file"`
	Line    int    `json:"line"`
	KeyType string `json:"key_type"`
	Family  string `json:"family"`
}

type Scratch struct {
	Dir         string
	Gleece      string // scratch copy of the repo
	Driver      string // instrumented driver binary
	Sites       []Site
	Warnings    []string
	Fingerprint string
	start       time.Time
}

// harnessFail reports harness trouble: exit 2, never a VIOLATION line.
func harnessFail(format string, a ...any) {
	fmt.Fprintf(os.Stderr, "HARNESS-ERROR: "+format+"\n", a...)
	cleanupAll()
	os.Exit(2)
}

var cleanups []func()

func cleanupAll() {
	for i := len(cleanups) - 1; i >= 0; i-- {
		cleanups[i]()
	}
	cleanups = nil
}

func newScratch(tag string) *Scratch {
	base := envOr("VERIF_SCRATCH", "/var/tmp")
	dir := filepath.Join(base, fmt.Sprintf("verif.%s.%d", tag, os.Getpid()))
	os.RemoveAll(dir)
	if err := os.MkdirAll(dir, 0o755); err != nil {
		harnessFail("scratch: %v", err)
	}
	s := &Scratch{Dir: dir, Gleece: filepath.Join(dir, "gleece"), start: time.Now()}
	if os.Getenv("VERIF_KEEP") == "" {
		cleanups = append(cleanups, func() { os.RemoveAll(dir) })
	}
	ch := make(chan os.Signal, 1)
	signal.Notify(ch, syscall.SIGINT, syscall.SIGTERM)
	go func() {
		<-ch
		fmt.Fprintln(os.Stderr, "HARNESS-ERROR: interrupted")
		cleanupAll()
		os.Exit(2)
	}()
	return s
}

func run(dir string, env []string, name string, args ...string) (string, error) {
	cmd := exec.Command(name, args...)
	cmd.Dir = dir
	cmd.Env = append(os.Environ(), env...)
	out, err := cmd.CombinedOutput()
	return string(out), err
}

// copyRepo copies /repo's CURRENT WORKING TREE (minus .git, e2e, dist dirs).
func (s *Scratch) copyRepo(withTests bool) {
	args := []string{"-a", "--exclude", ".git", "--exclude", "/e2e", "--exclude", "dist", "--exclude", "/docs"}
	if !withTests {
		args = append(args, "--exclude", "/test")
	}
	args = append(args, repoDir+"/", s.Gleece+"/")
	if out, err := run("/", nil, "rsync", args...); err != nil {
		harnessFail("rsync: %v\n%s", err, out)
	}
	s.Fingerprint = treeFingerprint(s.Gleece)
}

func treeFingerprint(root string) string {
	var files []string
	filepath.WalkDir(root, func(p string, d fs.DirEntry, err error) error {
		if err != nil {
			return nil
		}
		if d.IsDir() {
			return nil
		}
		if strings.HasSuffix(p, ".go") || strings.HasSuffix(p, ".hbs") || strings.HasSuffix(p, "go.mod") {
			files = append(files, p)
		}
		return nil
	})
	sort.Strings(files)
	h := sha256.New()
	for _, f := range files {
		rel, _ := filepath.Rel(root, f)
		io.WriteString(h, rel+"\n")
		if fh, err := os.Open(f); err == nil {
			io.Copy(h, fh)
			fh.Close()
		}
	}
	return hex.EncodeToString(h.Sum(nil))[:16]
}

// instrument rewrites the scratch copy and builds the driver.
func (s *Scratch) instrument() {
	sitesFile := filepath.Join(s.Dir, "sites.json")
	out, err := run(s.Gleece, nil, filepath.Join(verifDir, "bin", "instrument"),
		"-dir", s.Gleece, "-runtime", filepath.Join(verifDir, "sim", "runtime"), "-sites", sitesFile)
	if err != nil {
		harnessFail("instrument failed: %v\n%s", err, out)
	}
	raw, err := os.ReadFile(sitesFile)
	if err != nil {
		harnessFail("%v", err)
	}
	var sf struct {
		Sites    []Site   `json:"sites"`
		Warnings []string `json:"warnings"`
	}
	if err := json.Unmarshal(raw, &sf); err != nil {
		harnessFail("%v", err)
	}
	s.Sites, s.Warnings = sf.Sites, sf.Warnings
}

func (s *Scratch) installHarness(pkgs ...string) {
	for _, p := range pkgs {
		src := filepath.Join(verifDir, "sim", "harness", p)
		dst := filepath.Join(s.Gleece, "verifharness", p)
		os.MkdirAll(dst, 0o755)
		if out, err := run("/", nil, "rsync", "-a", src+"/", dst+"/"); err != nil {
			harnessFail("rsync harness: %v\n%s", err, out)
		}
	}
}

func (s *Scratch) build(out string, pkg string) string {
	bin := filepath.Join(s.Dir, "bin", out)
	os.MkdirAll(filepath.Dir(bin), 0o755)
	o, err := run(s.Gleece, nil, "go", "build", "-trimpath", "-o", bin, pkg)
	if err != nil {
		harnessFail("build of %s from the working tree failed: %v\n%s", pkg, err, o)
	}
	return bin
}

func (s *Scratch) normTable(projDir string) string {
	gomod, _ := run("/", nil, "go", "env", "GOMODCACHE")
	goroot, _ := run("/", nil, "go", "env", "GOROOT")
	return fmt.Sprintf("%s=$P;%s=$M;%s=$G", projDir, strings.TrimSpace(gomod), strings.TrimSpace(goroot))
}

func (s *Scratch) siteIDs() []string {
	var out []string
	for _, x := range s.Sites {
		out = append(out, x.ID)
	}
	return out
}

func (s *Scratch) families() map[string][]string {
	m := map[string][]string{}
	for _, x := range s.Sites {
		m[x.Family] = append(m[x.Family], x.ID)
	}
	return m
}
