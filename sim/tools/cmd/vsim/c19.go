package main

import (
	"encoding/json"
	"fmt"
	"os"
	"path/filepath"
	"sort"
	"strings"
	"sync"
	"time"

	"verifsim/tools/projgen"
)

// C19: call histories on one long-lived GleecePipeline against fresh sessions.

type C19Case struct {
	Fingerprint string           `json:"tree_fingerprint"`
	VerifSeed   uint64           `json:"verif_seed"`
	Project     *projgen.Project `json:"project"`
	Engine      string           `json:"engine"`
	Order       string           `json:"order"` // stable mode: isolates history effects from schedule effects
	Calls       []string         `json:"calls"`
}

type c19Ref struct {
	ok          bool
	why         string
	diag        string // Validate in a fresh session
	diagErr     string
	meta        string // canonicalised metadata of a fresh session
	metaErr     string
	// answers of brand-new sessions that have NOT built their graph yet
	diag0, diag0Err string
	meta0, meta0Err string
	graph0          string
	graphAfterG string // graph shape after GenerateGraph
	graphAfterI string // graph shape after GenerateGraph+GenerateIntermediate
	runErr      string
	routes      string
	spec        string
}

// canonMeta parses the flattened metadata JSON and sorts the parts whose order
// no artifact depends on (Imports value lists, Models.Aliases).
func canonMeta(s string) string {
	if s == "" {
		return ""
	}
	var m map[string]any
	if err := json.Unmarshal([]byte(s), &m); err != nil {
		return "UNPARSEABLE:" + s
	}
	if imps, ok := m["Imports"].(map[string]any); ok {
		for k, v := range imps {
			if l, ok := v.([]any); ok {
				ss := make([]string, len(l))
				for i := range l {
					ss[i] = fmt.Sprint(l[i])
				}
				sort.Strings(ss)
				imps[k] = ss
			}
		}
	}
	if models, ok := m["Models"].(map[string]any); ok {
		if al, ok := models["Aliases"].([]any); ok {
			ss := make([]string, len(al))
			for i := range al {
				b, _ := json.Marshal(al[i])
				ss[i] = string(b)
			}
			sort.Strings(ss)
			models["Aliases"] = ss
		}
	}
	b, _ := json.Marshal(m)
	return string(b)
}

func (o *ordersim) sessionJob(p *projgen.Project, engine, order string, calls []string, render bool, outDir, tag string) (Job, string) {
	dir := o.materialise(p)
	cfg := p.Config(projgen.ConfigOpts{Engine: engine, RoutesOut: filepath.Join(outDir, tag+"-routes.go"), SpecOut: filepath.Join(outDir, tag+"-spec.json"), SkipDate: true})
	cf := filepath.Join(dir, fmt.Sprintf("cfg-%d-%s.json", o.seq.Add(1), tag))
	os.WriteFile(cf, []byte(cfg), 0o644)
	return Job{Kind: "session", Dir: dir, Config: cf, Order: order, Now: day0, Calls: calls, Render: render, Norm: o.norm(dir)}, cf
}

func (o *ordersim) c19Reference(p *projgen.Project, engine, order string) *c19Ref {
	outDir := filepath.Join(o.s.Dir, "out", fmt.Sprintf("ref%d", o.seq.Add(1)))
	os.MkdirAll(outDir, 0o755)
	defer os.RemoveAll(outDir)
	// three brand-new sessions, each in its own fresh process
	specs := [][]string{{"GenerateGraph"}, {"GenerateGraph", "Validate"}, {"GenerateGraph", "GenerateIntermediate"}, {"Run"}, {"Validate"}, {"GenerateIntermediate"}}
	res := make([]Result, len(specs))
	var cfs []string
	var mu sync.Mutex
	parallel(len(specs), 6, func(i int) {
		j, cf := o.sessionJob(p, engine, order, specs[i], i == 2, outDir, fmt.Sprintf("r%d", i))
		mu.Lock()
		cfs = append(cfs, cf)
		mu.Unlock()
		res[i] = o.runDriver([]Job{j})[0]
	})
	for _, c := range cfs {
		os.Remove(c)
	}
	ref := &c19Ref{}
	for i, r := range res {
		if !r.OK || len(r.Calls) != len(specs[i]) {
			ref.why = fmt.Sprintf("fresh session %v: %s %s", specs[i], r.Err, r.Panic)
			return ref
		}
	}
	if res[0].Calls[0].Err != "" {
		ref.why = "fresh GenerateGraph fails: " + res[0].Calls[0].Err
		return ref
	}
	ref.graphAfterG = res[0].Calls[0].Graph
	ref.diag, ref.diagErr = res[1].Calls[1].Diag, res[1].Calls[1].Err
	ref.meta, ref.metaErr = canonMeta(res[2].Calls[1].Meta), res[2].Calls[1].Err
	ref.graphAfterI = res[2].Calls[1].Graph
	ref.runErr = res[3].Calls[0].Err
	ref.diag0, ref.diag0Err, ref.graph0 = res[4].Calls[0].Diag, res[4].Calls[0].Err, res[4].Calls[0].Graph
	ref.meta0, ref.meta0Err = canonMeta(res[5].Calls[0].Meta), res[5].Calls[0].Err
	if res[5].Calls[0].Graph != ref.graph0 {
		ref.why = "ASSUMPTION: GenerateIntermediate on a graph-less fresh session changes the graph"
		return ref
	}
	if ref.metaErr != "" || ref.runErr != "" {
		ref.why = "fresh session is rejected: " + ref.metaErr + ref.runErr
		return ref
	}
	if canonMeta(res[3].Calls[0].Meta) != ref.meta {
		// Run() and GenerateGraph+GenerateIntermediate in fresh sessions must agree, otherwise the
		// reference itself is ill-defined (harness assumption, not a property violation)
		ref.why = "ASSUMPTION: fresh Run() and fresh GenerateGraph+GenerateIntermediate disagree"
		return ref
	}
	if b, err := os.ReadFile(filepath.Join(outDir, "r2-routes.go")); err == nil {
		ref.routes = string(b)
	}
	if b, err := os.ReadFile(filepath.Join(outDir, "r2-spec.json")); err == nil {
		ref.spec = string(b)
	}
	ref.ok = true
	return ref
}

type c19RefCache struct {
	mu sync.Mutex
	m  map[string]*c19Ref
}

func (o *ordersim) c19Ref(rc *c19RefCache, p *projgen.Project, engine, order string) *c19Ref {
	k := projHash(p) + "|" + engine + "|" + order
	rc.mu.Lock()
	r, ok := rc.m[k]
	rc.mu.Unlock()
	if ok {
		return r
	}
	r = o.c19Reference(p, engine, order)
	rc.mu.Lock()
	rc.m[k] = r
	rc.mu.Unlock()
	return r
}

func jsonPathDiff(a, b string) string {
	var x, y any
	if json.Unmarshal([]byte(a), &x) != nil || json.Unmarshal([]byte(b), &y) != nil {
		return firstDiff(a, b)
	}
	return diffAny("$", x, y)
}

func diffAny(path string, x, y any) string {
	switch xv := x.(type) {
	case map[string]any:
		yv, ok := y.(map[string]any)
		if !ok {
			return fmt.Sprintf("%s: object vs %T", path, y)
		}
		keys := map[string]bool{}
		for k := range xv {
			keys[k] = true
		}
		for k := range yv {
			keys[k] = true
		}
		ks := make([]string, 0, len(keys))
		for k := range keys {
			ks = append(ks, k)
		}
		sort.Strings(ks)
		for _, k := range ks {
			if d := diffAny(path+"."+k, xv[k], yv[k]); d != "" {
				return d
			}
		}
		return ""
	case []any:
		yv, ok := y.([]any)
		if !ok {
			return fmt.Sprintf("%s: array vs %T", path, y)
		}
		if len(xv) != len(yv) {
			return fmt.Sprintf("%s: %d elements (fresh session) vs %d (long-lived session)", path, len(xv), len(yv))
		}
		for i := range xv {
			if d := diffAny(fmt.Sprintf("%s[%d]", path, i), xv[i], yv[i]); d != "" {
				return d
			}
		}
		return ""
	default:
		if fmt.Sprint(x) != fmt.Sprint(y) {
			return fmt.Sprintf("%s: fresh %v vs session %v", path, clip(fmt.Sprint(x), 80), clip(fmt.Sprint(y), 80))
		}
		return ""
	}
}

// judgeC19 executes one history and compares every call with the reference model.
func (o *ordersim) judgeC19(rc *c19RefCache, c C19Case) (class, msg string, res Result) {
	ref := o.c19Ref(rc, c.Project, c.Engine, c.Order)
	if !ref.ok {
		if strings.HasPrefix(ref.why, "ASSUMPTION") {
			return "assumption", ref.why, res
		}
		return "rejected", ref.why, res
	}
	outDir := filepath.Join(o.s.Dir, "out", fmt.Sprintf("s%d", o.seq.Add(1)))
	os.MkdirAll(outDir, 0o755)
	defer os.RemoveAll(outDir)
	j, cf := o.sessionJob(c.Project, c.Engine, c.Order, c.Calls, true, outDir, "s")
	res = o.runDriver([]Job{j})[0]
	os.Remove(cf)
	if res.Panic != "" {
		return "session-crashed", "the long-lived session crashed: " + clip(res.Panic, 300), res
	}
	if len(res.Calls) != len(c.Calls) {
		return "session-crashed", fmt.Sprintf("the session returned %d of %d calls: %s", len(res.Calls), len(c.Calls), res.Err), res
	}
	intermediateSeen := false
	graphBuilt := false
	for i, ob := range res.Calls {
		where := fmt.Sprintf("call %d (%s) of %v", i+1, ob.Call, c.Calls)
		if !graphBuilt && (ob.Call == "Validate" || ob.Call == "GenerateIntermediate") {
			// the session has not analysed anything yet: it must answer like a brand-new session would
			if ob.Call == "Validate" && (ob.Err != ref.diag0Err || ob.Diag != ref.diag0) {
				return "diagnostics-differ", where + ": before the first analysis the session answers differently from a brand-new session: " + jsonPathDiff(ref.diag0, ob.Diag) + " " + clip(ob.Err, 100), res
			}
			if ob.Call == "GenerateIntermediate" && (ob.Err != ref.meta0Err || canonMeta(ob.Meta) != ref.meta0) {
				return "metadata-differs", where + ": before the first analysis the session answers differently from a brand-new session: " + jsonPathDiff(ref.meta0, canonMeta(ob.Meta)) + " " + clip(ob.Err, 100), res
			}
			if ob.Graph != ref.graph0 {
				return "graph-grows", fmt.Sprintf("%s: symbol graph is [%s], a brand-new session has [%s]", where, ob.Graph, ref.graph0), res
			}
			continue
		}
		switch ob.Call {
		case "GenerateGraph":
			graphBuilt = true
			if ob.Err != "" {
				return "call-fails", where + " fails although it succeeds in a fresh session: " + clip(ob.Err, 300), res
			}
		case "Validate":
			if ob.Err != ref.diagErr {
				return "call-fails", fmt.Sprintf("%s: error %q, fresh session %q", where, clip(ob.Err, 200), clip(ref.diagErr, 200)), res
			}
			if ob.Diag != ref.diag {
				return "diagnostics-differ", where + ": diagnostics differ from a fresh session: " + jsonPathDiff(ref.diag, ob.Diag), res
			}
		case "GenerateIntermediate", "Run":
			intermediateSeen = true
			graphBuilt = true
			if ob.Err != "" {
				return "call-fails", where + " fails although it succeeds in a fresh session: " + clip(ob.Err, 300), res
			}
			if m := canonMeta(ob.Meta); m != ref.meta {
				return "metadata-differs", where + ": controllers/routes/models/identifiers differ from a fresh session: " + jsonPathDiff(ref.meta, m), res
			}
		}
		want := ref.graphAfterG
		if intermediateSeen {
			want = ref.graphAfterI
		}
		if ob.Graph != want {
			return "graph-grows", fmt.Sprintf("%s: symbol graph is [%s], a fresh session has [%s]", where, ob.Graph, want), res
		}
	}
	if intermediateSeen {
		if !res.OK {
			return "render-fails", "rendering from the session's metadata fails: " + clip(res.Err, 300), res
		}
		rb, _ := os.ReadFile(filepath.Join(outDir, "s-routes.go"))
		sb, _ := os.ReadFile(filepath.Join(outDir, "s-spec.json"))
		if string(rb) != ref.routes {
			return "routes-differ", "routes rendered from the session differ from a fresh session's: " + firstDiff(ref.routes, string(rb)), res
		}
		if string(sb) != ref.spec {
			return "spec-differs", "spec rendered from the session differs from a fresh session's: " + firstDiff(ref.spec, string(sb)), res
		}
	}
	return "", "", res
}

func c19Signature(class string, calls []string) string {
	short := map[string]string{"GenerateGraph": "G", "Validate": "V", "GenerateIntermediate": "I", "Run": "R"}
	var s []string
	for _, c := range calls {
		s = append(s, short[c])
	}
	return fmt.Sprintf("C19|%s|%s", class, strings.Join(s, ""))
}

func drawCalls(r *projgen.Rand) []string {
	all := []string{"GenerateGraph", "Validate", "GenerateIntermediate", "Run"}
	n := r.Range(2, 10)
	var calls []string
	if r.Chance(1, 4) {
		// an editor asking for diagnostics / metadata before anything was analysed
		calls = append(calls, projgen.Pick(r, []string{"Validate", "GenerateIntermediate"}))
		if r.Chance(1, 3) {
			calls = append(calls, projgen.Pick(r, []string{"Validate", "GenerateIntermediate"}))
		}
	}
	calls = append(calls, projgen.Pick(r, []string{"GenerateGraph", "GenerateGraph", "Run"}))
	for len(calls) < n {
		calls = append(calls, projgen.Pick(r, all))
	}
	return calls
}

func (o *ordersim) minimiseC19(rc *c19RefCache, c C19Case, class, msg string) (C19Case, string) {
	budget := 40
	fails := func(d C19Case) (bool, string) {
		if budget <= 0 {
			return false, ""
		}
		budget--
		cl, m, _ := o.judgeC19(rc, d)
		return cl == class, m
	}
	if c.Order != "" {
		d := c
		d.Order = ""
		if ok, m := fails(d); ok {
			c, msg = d, m
		}
	}
	for changed := true; changed; {
		changed = false
		for i := len(c.Calls) - 1; i >= 0; i-- {
			if len(c.Calls) <= 1 {
				break
			}
			d := c
			d.Calls = append(append([]string(nil), c.Calls[:i]...), c.Calls[i+1:]...)
			if ok, m := fails(d); ok {
				c, msg, changed = d, m, true
			}
		}
	}
	return c, msg
}

func cmdC19(args []string) {
	o := baseOpts("C19", args)
	start := time.Now()
	nProj, nHist := 12, 6
	if o.Tier == "thorough" {
		nProj, nHist = 150, 20
	}
	if v := os.Getenv("VERIF_C19_PROJECTS"); v != "" {
		fmt.Sscan(v, &nProj)
	}
	sim := newOrdersim("c19", false)
	rc := &c19RefCache{m: map[string]*c19Ref{}}
	rep := newReporter("C19")
	var cases []C19Case
	for i := 0; i < nProj; i++ {
		p := projgen.Generate(projgen.Stream(o.Seed, "c19/project", uint64(i)).U64()&0xffffffff, "order")
		pr := projgen.Stream(o.Seed, "c19/proj-cfg", uint64(i))
		engine := projgen.Pick(pr, projgen.Engines)
		orders := []string{fmt.Sprintf("%d:stable:*", pr.U64()&0xffffffff), fmt.Sprintf("%d:stable:*", pr.U64()&0xffffffff)}
		for j := 0; j < nHist; j++ {
			r := projgen.Stream(o.Seed, "c19/history", uint64(i*1000+j))
			cases = append(cases, C19Case{Fingerprint: sim.s.Fingerprint, VerifSeed: o.Seed, Project: p, Engine: engine, Order: orders[j%2], Calls: drawCalls(r)})
		}
	}
	var mu sync.Mutex
	evals, calls := 0, 0
	rejected := map[string]string{}
	distinct := map[string]bool{}
	callHist := map[string]int{}
	probes := map[string]int{"repeated GenerateGraph": 0, "Validate after GenerateIntermediate": 0, "Run after Run": 0, "history length >= 6": 0}
	type failT struct {
		c          C19Case
		class, msg string
	}
	var fails []failT
	parallel(len(cases), o.Workers/2, func(i int) {
		c := cases[i]
		class, msg, _ := sim.judgeC19(rc, c)
		mu.Lock()
		defer mu.Unlock()
		if class == "rejected" {
			rejected[projHash(c.Project)] = msg
			return
		}
		if class == "assumption" {
			harnessFail("%s", msg)
		}
		evals++
		calls += len(c.Calls)
		distinct[projHash(c.Project)+"|"+c.Order+"|"+strings.Join(c.Calls, ",")] = true
		g, inter, runs := 0, false, 0
		for _, cl := range c.Calls {
			callHist[cl]++
			switch cl {
			case "GenerateGraph":
				g++
			case "GenerateIntermediate":
				inter = true
			case "Run":
				runs++
				inter = true
			case "Validate":
				if inter {
					probes["Validate after GenerateIntermediate"]++
				}
			}
		}
		if g >= 2 {
			probes["repeated GenerateGraph"]++
		}
		if runs >= 2 {
			probes["Run after Run"]++
		}
		if len(c.Calls) >= 6 {
			probes["history length >= 6"]++
		}
		if class != "" {
			fails = append(fails, failT{c, class, msg})
		}
	})
	if len(rejected)*10 > nProj && nProj >= 5 {
		for h, m := range rejected {
			fmt.Fprintf(os.Stderr, "rejected workload %s: %s\n", h, clip(m, 300))
		}
		harnessFail("%d of %d generated projects were rejected by gleece", len(rejected), nProj)
	}
	sort.Slice(fails, func(i, j int) bool {
		if fails[i].class != fails[j].class {
			return fails[i].class < fails[j].class
		}
		return len(fails[i].c.Calls) < len(fails[j].c.Calls)
	})
	seenSig := map[string]bool{}
	seenClass := map[string]int{}
	for _, f := range fails {
		if seenClass[f.class] >= 3 {
			continue
		}
		seenClass[f.class]++
		mc, mmsg := sim.minimiseC19(rc, f.c, f.class, f.msg)
		sig := c19Signature(f.class, mc.Calls)
		if seenSig[sig] {
			continue
		}
		seenSig[sig] = true
		class2, msg2, _ := sim.judgeC19(&c19RefCache{m: map[string]*c19Ref{}}, mc)
		if class2 != f.class {
			harnessFail("non-replayable: minimised C19 case gave class %q on re-execution, expected %q (%s)", class2, f.class, msg2)
		}
		rep.Report(sig, f.class, mmsg, mc)
	}
	var samples []any
	for i := 0; i < len(cases) && len(samples) < 3; i += len(cases)/3 + 1 {
		samples = append(samples, map[string]any{"project_seed": cases[i].Project.Seed, "engine": cases[i].Engine, "order": cases[i].Order, "calls": cases[i].Calls})
	}
	wall := time.Since(start).Seconds()
	cov := map[string]any{
		"evaluations":         evals,
		"distinct_nontrivial": len(distinct),
		"rule":                "one evaluation = one call history (2-10 calls over GenerateGraph/Validate/GenerateIntermediate/Run) on ONE long-lived GleecePipeline, every call compared with brand-new sessions run in fresh processes under the same stable order schedule; distinct = distinct (project, order schedule, call list); every history is non-trivial (>= 2 calls on one session)",
		"samples":             samples,
		"session_calls":       calls,
		"call_histogram":      callHist,
		"probes":              probes,
		"projects":            nProj,
		"histories_per_project": nHist,
		"simulated_generations_incl_refs": sim.runs.Load(),
		"runs_per_hour":       int(float64(sim.runs.Load()) / wall * 3600),
		"rejected_workloads":  len(rejected),
		"failing_histories_observed": len(fails),
		"known_findings_matched": rep.KnownMatched(),
		"simulated_time":      "clock fixed at " + day0 + " (the session API does not read it; rendering does once)",
		"fault_kinds_fired":   map[string]any{"repeated/out-of-order session calls": evals, "iteration-order permutation (stable mode, shared with the reference)": evals},
		"components": map[string]any{
			"real": []string{"GleecePipeline, visitors, caches, symbol graph, validators, generators (instrumented copy of /repo working tree)", "go/packages + go list"},
			"stub": []string{"iteration orders (seeded, stable per site+keys)", "wall clock"},
		},
		"tree_fingerprint": sim.s.Fingerprint,
	}
	writeEvidence(o, start, cov, []string{
		"the reference model is three constants computed by brand-new sessions in fresh processes under the same stable order schedule",
		"Imports value lists and Models.Aliases are compared as sets (no artifact depends on their order)",
		"fresh Run() and fresh GenerateGraph+GenerateIntermediate agree (checked; otherwise exit 2)",
	}, rep.Count())
	finish(o, rep)
}
