package main

import (
	"context"
	"encoding/json"
	"fmt"
	"os"
	"os/exec"
	"path/filepath"
	"regexp"
	"sort"
	"strings"
	"sync"
	"time"

	"verifsim/tools/projgen"
)

// routersim orchestrator: real gleece CLI -> five generated routers per
// project -> one batch binary with the simrt runtime -> judged histories.

type batchProject struct {
	Tag     string           `json:"tag"`
	Project *projgen.Project `json:"project"`
	SpecOps []specOp         `json:"spec_ops"`
}

type specOp struct {
	Verb string `json:"verb"`
	Path string `json:"path"`
	OpID string `json:"operation_id"`
}

type routerViolation struct {
	Property  string          `json:"property"`
	Signature string          `json:"signature"`
	Class     string          `json:"class"`
	Message   string          `json:"message"`
	Project   string          `json:"project"`
	Engine    string          `json:"engine"`
	Group     json.RawMessage `json:"group"`
	Focus     string          `json:"focus"`
	SchedSeed uint64          `json:"sched_seed"`
	Outcomes  json.RawMessage `json:"outcomes,omitempty"`
	raw       json.RawMessage
}

type batchOutput struct {
	Violations []routerViolation `json:"-"`
	Raw        []json.RawMessage `json:"violations"` // verbatim: replayed exactly as the batch wrote them
	Stats      map[string]any    `json:"stats"`
}

type routerSim struct {
	s        *Scratch
	gleece   string
	batchDir string
	rejected map[string]string
	projects []batchProject
	bin      string
	uncompilable []string
	// compilerOutput is set when MOST projects were dropped because their generated routers do not compile
	compilerOutput string
}

func repoRequireBlocks() string {
	raw, err := os.ReadFile(filepath.Join(repoDir, "go.mod"))
	if err != nil {
		harnessFail("%v", err)
	}
	var out []string
	in := false
	for _, l := range strings.Split(string(raw), "\n") {
		t := strings.TrimSpace(l)
		if strings.HasPrefix(t, "require (") {
			in = true
			out = append(out, l)
			continue
		}
		if in {
			out = append(out, l)
			if t == ")" {
				in = false
			}
			continue
		}
		if strings.HasPrefix(t, "require ") {
			out = append(out, l)
		}
	}
	return strings.Join(out, "\n")
}

func copyDir(src, dst string) {
	os.MkdirAll(dst, 0o755)
	if out, err := run("/", nil, "rsync", "-a", "--exclude", "*_test.go", src+"/", dst+"/"); err != nil {
		harnessFail("rsync %s: %v %s", src, err, out)
	}
}

func newRouterSim(tag string) *routerSim {
	s := newScratch(tag)
	t0 := time.Now()
	s.copyRepo(false)
	rs := &routerSim{s: s, rejected: map[string]string{}}
	rs.gleece = s.build("gleece", ".")
	rs.batchDir = filepath.Join(s.Dir, "batch")
	os.MkdirAll(rs.batchDir, 0o755)
	gomod := "module simbatch\n\ngo 1.24.7\n\n" + repoRequireBlocks() + "\n"
	os.WriteFile(filepath.Join(rs.batchDir, "go.mod"), []byte(gomod), 0o644)
	if sum, err := os.ReadFile(filepath.Join(repoDir, "go.sum")); err == nil {
		os.WriteFile(filepath.Join(rs.batchDir, "go.sum"), sum, 0o644)
	}
	copyDir(filepath.Join(verifDir, "sim", "tools", "projgen"), filepath.Join(rs.batchDir, "projgen"))
	copyDir(filepath.Join(verifDir, "sim", "harness", "routersim"), filepath.Join(rs.batchDir, "simrt"))
	os.MkdirAll(filepath.Join(rs.batchDir, "simhook"), 0o755)
	os.WriteFile(filepath.Join(rs.batchDir, "simhook", "simhook.go"), []byte(projgen.HookSource()), 0o644)
	os.MkdirAll(filepath.Join(rs.batchDir, "cmd", "batch"), 0o755)
	os.WriteFile(filepath.Join(rs.batchDir, "cmd", "batch", "main.go"), []byte("package main\n\nimport (\n\t_ \"simbatch/glue\"\n\t\"simbatch/simrt\"\n)\n\nfunc main() { simrt.Main() }\n"), 0o644)
	fmt.Printf("routersim: real gleece CLI built from the working tree in %.1fs (fingerprint %s)\n", time.Since(t0).Seconds(), s.Fingerprint)
	return rs
}

func (rs *routerSim) runGleece(dir, cfg string) (string, error) {
	ctx, cancel := context.WithTimeout(context.Background(), 180*time.Second)
	defer cancel()
	cmd := exec.CommandContext(ctx, rs.gleece, "generate", "spec-and-routes", "-c", cfg, "--no-banner")
	cmd.Dir = dir
	cmd.Env = append(os.Environ(), "GOMAXPROCS=2", "GOGC=off", "GOMEMLIMIT=3GiB")
	out, err := cmd.CombinedOutput()
	if ctx.Err() != nil {
		harnessFail("watchdog: gleece did not finish within 180 s in %s", dir)
	}
	return string(out), err
}

func parseSpecOps(path string) ([]specOp, error) {
	raw, err := os.ReadFile(path)
	if err != nil {
		return nil, err
	}
	var doc struct {
		Paths map[string]map[string]json.RawMessage `json:"paths"`
	}
	if err := json.Unmarshal(raw, &doc); err != nil {
		return nil, err
	}
	var ops []specOp
	for p, item := range doc.Paths {
		for verb, body := range item {
			v := strings.ToUpper(verb)
			switch v {
			case "GET", "POST", "PUT", "DELETE", "PATCH", "HEAD", "OPTIONS":
			default:
				continue
			}
			var op struct {
				OperationID string `json:"operationId"`
			}
			json.Unmarshal(body, &op)
			ops = append(ops, specOp{Verb: v, Path: p, OpID: op.OperationID})
		}
	}
	sort.Slice(ops, func(i, j int) bool { return ops[i].Verb+ops[i].Path < ops[j].Verb+ops[j].Path })
	return ops, nil
}

func glueSource(tag string) string {
	var b strings.Builder
	fmt.Fprintf(&b, "package glue\n\nimport (\n\t\"context\"\n\t\"net/http\"\n\n\t\"github.com/gin-gonic/gin\"\n\t\"github.com/gofiber/fiber/v2\"\n\t\"github.com/gopher-fleece/runtime\"\n\t\"github.com/labstack/echo/v4\"\n\n\t\"simbatch/simrt\"\n")
	for _, e := range projgen.Engines {
		fmt.Fprintf(&b, "\tr%s_%s \"simbatch/%s/gen/%s\"\n", e, tag, tag, e)
	}
	b.WriteString(")\n\n")
	fmt.Fprintf(&b, "func init() {\n\tsimrt.Register(&simrt.ProjectReg{\n\t\tName: %q,\n", tag)
	fmt.Fprintf(&b, "\t\tGin: rgin_%s.RegisterRoutes, Echo: recho_%s.RegisterRoutes, Mux: rmux_%s.RegisterRoutes, Chi: rchi_%s.RegisterRoutes, Fiber: rfiber_%s.RegisterRoutes,\n", tag, tag, tag, tag, tag)
	b.WriteString("\t\tSetup: func() {\n")
	type sig struct{ engine, mw, emw string }
	sigs := []sig{
		{"gin", "func(ctx context.Context, c *gin.Context) (context.Context, bool) { return simrt.MW(%q, ctx, c) }", "func(ctx context.Context, c *gin.Context, err error) (context.Context, bool) { return simrt.MW(%q, ctx, c) }"},
		{"echo", "func(ctx context.Context, c echo.Context) (context.Context, bool) { return simrt.MW(%q, ctx, c) }", "func(ctx context.Context, c echo.Context, err error) (context.Context, bool) { return simrt.MW(%q, ctx, c) }"},
		{"fiber", "func(ctx context.Context, c *fiber.Ctx) (context.Context, bool) { return simrt.MW(%q, ctx, c) }", "func(ctx context.Context, c *fiber.Ctx, err error) (context.Context, bool) { return simrt.MW(%q, ctx, c) }"},
		{"mux", "func(ctx context.Context, w http.ResponseWriter, r *http.Request) (context.Context, bool) { return simrt.MW(%q, ctx, r) }", "func(ctx context.Context, w http.ResponseWriter, r *http.Request, err error) (context.Context, bool) { return simrt.MW(%q, ctx, r) }"},
		{"chi", "func(ctx context.Context, w http.ResponseWriter, r *http.Request) (context.Context, bool) { return simrt.MW(%q, ctx, r) }", "func(ctx context.Context, w http.ResponseWriter, r *http.Request, err error) (context.Context, bool) { return simrt.MW(%q, ctx, r) }"},
	}
	for _, s := range sigs {
		pk := fmt.Sprintf("r%s_%s", s.engine, tag)
		fmt.Fprintf(&b, "\t\t\t%s.RegisterMiddleware(runtime.BeforeOperation, "+s.mw+")\n", pk, "BeforeOpMW")
		fmt.Fprintf(&b, "\t\t\t%s.RegisterMiddleware(runtime.AfterOperationSuccess, "+s.mw+")\n", pk, "AfterOpMW")
		fmt.Fprintf(&b, "\t\t\t%s.RegisterErrorMiddleware(runtime.OnOperationError, "+s.emw+")\n", pk, "OnErrorMW")
		fmt.Fprintf(&b, "\t\t\t%s.RegisterErrorMiddleware(runtime.OnInputValidationError, "+s.emw+")\n", pk, "InputValidationMW")
		fmt.Fprintf(&b, "\t\t\t%s.RegisterErrorMiddleware(runtime.OnOutputValidationError, "+s.emw+")\n", pk, "OutputValidationMW")
		fmt.Fprintf(&b, "\t\t\t%s.RegisterCustomValidator(\"sim_probe\", simrt.ProbeValidator)\n", pk)
	}
	b.WriteString("\t\t},\n\t})\n}\n")
	return b.String()
}

// addProjects renders the projects, runs the REAL gleece CLI five times per project and writes the glue.
func (rs *routerSim) addProjects(ps []*projgen.Project, workers int) {
	rs.addProjectsTagged(ps, nil, workers)
}

func (rs *routerSim) addProjectsTagged(ps []*projgen.Project, tags []string, workers int) {
	type item struct {
		bp  batchProject
		dir string
		ok  bool
	}
	items := make([]*item, len(ps))
	for k, p := range ps {
		tag := fmt.Sprintf("p%d", k)
		if tags != nil {
			tag = tags[k]
		}
		p.Mod, p.Hook, p.OpPrefix = "simbatch/"+tag, "simbatch/simhook", tag+"/"
		dir := filepath.Join(rs.batchDir, tag)
		if err := p.Render(dir); err != nil {
			harnessFail("render: %v", err)
		}
		items[k] = &item{bp: batchProject{Tag: tag, Project: p}, dir: dir, ok: true}
	}
	var mu sync.Mutex
	type job struct{ k, e int }
	var jobs []job
	for k := range items {
		for e := range projgen.Engines {
			jobs = append(jobs, job{k, e})
		}
	}
	parallel(len(jobs), workers, func(i int) {
		it := items[jobs[i].k]
		engine := projgen.Engines[jobs[i].e]
		cfg := it.bp.Project.Config(projgen.ConfigOpts{Engine: engine, SkipDate: true, PackageName: "routes_" + engine,
			RoutesOut: filepath.Join(it.dir, "gen", engine, "routes.go"), SpecOut: filepath.Join(it.dir, "spec", engine+".json")})
		cf := filepath.Join(it.dir, "gleece."+engine+".json")
		os.WriteFile(cf, []byte(cfg), 0o644)
		out, err := rs.runGleece(it.dir, cf)
		if err != nil {
			mu.Lock()
			it.ok = false
			rs.rejected[it.bp.Tag] = clip(lastLines(out, 6), 500)
			mu.Unlock()
		}
	})
	os.MkdirAll(filepath.Join(rs.batchDir, "glue"), 0o755)
	for _, it := range items {
		if !it.ok {
			os.RemoveAll(it.dir)
			continue
		}
		ops, err := parseSpecOps(filepath.Join(it.dir, "spec", "gin.json"))
		if err != nil {
			harnessFail("spec of %s unreadable: %v", it.bp.Tag, err)
		}
		it.bp.SpecOps = ops
		os.WriteFile(filepath.Join(rs.batchDir, "glue", "glue_"+it.bp.Tag+".go"), []byte(glueSource(it.bp.Tag)), 0o644)
		rs.projects = append(rs.projects, it.bp)
	}
	if len(rs.projects) == 0 {
		harnessFail("gleece rejected every generated project: %v", rs.rejected)
	}
	if len(rs.rejected)*10 > len(ps) && len(ps) >= 5 {
		harnessFail("%d of %d generated projects were rejected by gleece: %v", len(rs.rejected), len(ps), rs.rejected)
	}
}

func lastLines(s string, n int) string {
	ls := strings.Split(strings.TrimSpace(s), "\n")
	if len(ls) > n {
		ls = ls[len(ls)-n:]
	}
	return strings.Join(ls, "\n")
}

func (rs *routerSim) buildBatch() {
	t0 := time.Now()
	rs.bin = filepath.Join(rs.s.Dir, "bin", "batch")
	out, err := run(rs.batchDir, nil, "go", "build", "-trimpath", "-o", rs.bin, "./cmd/batch")
	total := len(rs.projects)
	for round := 0; err != nil; round++ {
		// Generated code that does not compile is C09's subject, which this family does not claim. Projects
		// whose routers do not compile are dropped (counted, printed) and the exploration goes on with the
		// rest: a violation found there is real. If most of the batch was dropped and NO violation is found,
		// the check cannot say that the property held and stops with exit 2 (see cmdRouter).
		bad := map[string]bool{}
		for _, m := range regexp.MustCompile(`(?m)^# simbatch/([pk]\d+)/`).FindAllStringSubmatch(out, -1) {
			bad[m[1]] = true
		}
		if len(bad) == 0 || round >= 4 {
			harnessFail("the generated routers (or the harness) do not compile:\n%s", clip(out, 6000))
		}
		var keep []batchProject
		for _, bp := range rs.projects {
			if bad[bp.Tag] {
				rs.uncompilable = append(rs.uncompilable, bp.Tag)
				os.Remove(filepath.Join(rs.batchDir, "glue", "glue_"+bp.Tag+".go"))
				os.RemoveAll(filepath.Join(rs.batchDir, bp.Tag))
				continue
			}
			keep = append(keep, bp)
		}
		rs.projects = keep
		fmt.Printf("routersim: NOTE: the routers gleece generated for %d project(s) do not compile and are left out: %v\n%s\n", len(bad), rs.uncompilable, clip(out, 1500))
		if len(rs.projects) == 0 {
			harnessFail("none of the generated routers compiles:\n%s", clip(out, 6000))
		}
		if len(rs.uncompilable)*2 > total {
			rs.compilerOutput = clip(out, 6000)
		}
		out, err = run(rs.batchDir, nil, "go", "build", "-trimpath", "-o", rs.bin, "./cmd/batch")
	}
	fmt.Printf("routersim: %d projects x 5 engines compiled into one batch binary in %.1fs\n", len(rs.projects), time.Since(t0).Seconds())
}

func (rs *routerSim) runBatch(seed uint64, tier string, projects []batchProject, replay json.RawMessage) batchOutput {
	in := map[string]any{"seed": seed, "tier": tier, "projects": projects}
	if replay != nil {
		in["replay"] = replay
	}
	b, _ := json.Marshal(in)
	id := time.Now().UnixNano()
	inF := filepath.Join(rs.s.Dir, fmt.Sprintf("batch-in-%d.json", id))
	outF := filepath.Join(rs.s.Dir, fmt.Sprintf("batch-out-%d.json", id))
	os.WriteFile(inF, b, 0o644)
	ctx, cancel := context.WithTimeout(context.Background(), 2*time.Hour)
	defer cancel()
	cmd := exec.CommandContext(ctx, rs.bin, inF, outF)
	cmd.Dir = rs.batchDir
	if g := os.Getenv("VERIF_BATCH_GOMAXPROCS"); g != "" {
		cmd.Env = append(os.Environ(), "GOMAXPROCS="+g)
	}
	out, err := cmd.CombinedOutput()
	if ctx.Err() != nil {
		harnessFail("watchdog: batch binary did not finish")
	}
	if err != nil {
		harnessFail("batch binary failed: %v\n%s", err, clip(string(out), 4000))
	}
	raw, err := os.ReadFile(outF)
	if err != nil {
		harnessFail("%v", err)
	}
	var bo batchOutput
	if err := json.Unmarshal(raw, &bo); err != nil {
		harnessFail("batch output unreadable: %v", err)
	}
	for _, r := range bo.Raw {
		var v routerViolation
		if err := json.Unmarshal(r, &v); err != nil {
			harnessFail("batch violation unreadable: %v", err)
		}
		v.raw = r
		bo.Violations = append(bo.Violations, v)
	}
	return bo
}

var routerProps = map[string]string{
	"C02": "served set and dispatch (reference router + emitted spec)",
	"C03": "authorization gate ordering invariant over the event history",
	"C05": "parameter binding and requiredness (reference binder model)",
	"C12": "replica agreement of the five routers",
}

func cmdRouter(prop string, args []string) {
	o := baseOpts(prop, args)
	start := time.Now()
	nProj := 24
	if o.Tier == "thorough" {
		nProj = 300
	}
	if v := os.Getenv("VERIF_ROUTER_PROJECTS"); v != "" {
		fmt.Sscan(v, &nProj)
	}
	rs := newRouterSim(strings.ToLower(prop))
	var ps []*projgen.Project
	for i := 0; i < nProj; i++ {
		ps = append(ps, projgen.Generate(projgen.Stream(o.Seed, "router/project", uint64(i)).U64()&0xffffffff, "router"))
	}
	// the concrete cases of this property's known findings ride along in the same batch (own tags k0, k1, ...)
	type knownCase struct {
		finding   Finding
		file      string
		tag       string
		bp        batchProject
		violation json.RawMessage
		signature string
	}
	var knownCases []knownCase
	var tags []string
	for i := range ps {
		tags = append(tags, fmt.Sprintf("p%d", i))
	}
	for _, f := range loadFindings() {
		if f.State != "known" || f.Property != prop {
			continue
		}
		for _, rf := range f.ReplayFiles {
			raw, err := os.ReadFile(filepath.Join(verifDir, rf))
			if err != nil {
				harnessFail("known finding %s: %v", f.Signature, err)
			}
			var doc struct {
				Signature string `json:"signature"`
				Case      struct {
					BP        batchProject    `json:"batch_project"`
					Violation json.RawMessage `json:"violation"`
				} `json:"case"`
			}
			if err := json.Unmarshal(raw, &doc); err != nil {
				harnessFail("known finding file %s: %v", rf, err)
			}
			// re-tag: the stored tag (p<n>) would collide with this run's generated projects
			oldTag, newTag := doc.Case.BP.Tag, fmt.Sprintf("k%d", len(knownCases))
			re := regexp.MustCompile(`\b` + regexp.QuoteMeta(oldTag) + `\b`)
			var bp batchProject
			if err := json.Unmarshal(re.ReplaceAll(mustJSON(doc.Case.BP), []byte(newTag)), &bp); err != nil {
				harnessFail("known finding file %s: %v", rf, err)
			}
			knownCases = append(knownCases, knownCase{finding: f, file: rf, tag: newTag, bp: bp,
				violation: re.ReplaceAll(doc.Case.Violation, []byte(newTag)), signature: re.ReplaceAllString(doc.Signature, newTag)})
			ps = append(ps, bp.Project)
			tags = append(tags, newTag)
		}
	}
	rs.addProjectsTagged(ps, tags, o.Workers)
	rs.buildBatch()
	// the exploration runs on the generated projects only
	var explored []batchProject
	knownBP := map[string]batchProject{}
	for _, bp := range rs.projects {
		if strings.HasPrefix(bp.Tag, "k") {
			knownBP[bp.Tag] = bp
		} else {
			explored = append(explored, bp)
		}
	}
	rs.projects = explored
	// the workload is split over several processes (one simulation at a time inside each)
	nProc := o.Workers
	if nProc > len(rs.projects) {
		nProc = len(rs.projects)
	}
	outs := make([]batchOutput, nProc)
	parallel(nProc, nProc, func(i int) {
		var mine []batchProject
		for k, bp := range rs.projects {
			if k%nProc == i {
				mine = append(mine, bp)
			}
		}
		outs[i] = rs.runBatch(o.Seed, o.Tier, mine, nil)
	})
	rep := newReporter(prop)
	// re-execute the concrete case of every known finding of this property: the KNOWN-FINDING line is printed
	// whenever the defect is still there, whether or not this run's random workload happens to hit it
	knownReplayed, knownGone := 0, []string{}
	for _, kc := range knownCases {
		bp, ok := knownBP[kc.tag]
		if !ok {
			knownGone = append(knownGone, kc.file+" (its project is no longer accepted / compilable)")
			continue
		}
		out := rs.runBatch(o.Seed, o.Tier, []batchProject{bp}, kc.violation)
		hit := false
		for _, v := range out.Violations {
			if v.Property == prop && knownFor(prop, v.Signature) != nil && knownFor(prop, v.Signature).WhatFails == kc.finding.WhatFails {
				rep.Report(v.Signature, v.Class, v.Message, nil)
				hit = true
				break
			}
		}
		if hit {
			knownReplayed++
		} else {
			knownGone = append(knownGone, kc.file)
		}
	}
	for _, g := range knownGone {
		fmt.Printf("note: the known finding recorded in %s does not reproduce on this tree any more\n", g)
	}
	stats := map[string]any{}
	byTag := map[string]batchProject{}
	for _, bp := range rs.projects {
		byTag[bp.Tag] = bp
	}
	otherProps := map[string]int{}
	seenSig := map[string]bool{}
	var nonReplayable []string
	for _, bo := range outs {
		mergeStats(stats, bo.Stats)
		for _, v := range bo.Violations {
			if v.Property != prop {
				otherProps[v.Property]++
				continue
			}
			if seenSig[v.Signature] {
				continue
			}
			seenSig[v.Signature] = true
			bp := byTag[v.Project]
			replayMode := "static"
			// replay before report: the same group, same schedule seed, in a fresh process
			vb := v.raw
			static := map[string]bool{"registration-panic": true, "hidden-documented": true, "served-not-documented": true, "operation-id": true, "documented-not-annotated": true}
			if !static[v.Class] {
				rb := rs.runBatch(o.Seed, o.Tier, []batchProject{bp}, vb)
				found := false
				for _, rv := range rb.Violations {
					if rv.Signature == v.Signature {
						found = true
					}
				}
				mode := "minimal-group"
				if !found {
					// The violation may depend on what earlier requests left behind in the router's shared state
					// (that is what a concurrency/history defect looks like). The simulation is deterministic, so
					// re-running this project's WHOLE seeded workload in a fresh process must find it again.
					fb := rs.runBatch(o.Seed, o.Tier, []batchProject{bp}, nil)
					for _, rv := range fb.Violations {
						if rv.Signature == v.Signature {
							found, mode = true, "full-project-history"
						}
					}
				}
				if !found {
					// never reported as a violation (R7); a harness failure unless replayable violations exist too
					nonReplayable = append(nonReplayable, v.Signature)
					continue
				}
				replayMode = mode
			}
			rep.Report(v.Signature, v.Class, v.Message, map[string]any{
				"engine": "routersim", "tree_fingerprint": rs.s.Fingerprint, "verif_seed": o.Seed,
				"batch_project": bp, "violation": v.raw, "replay_mode": replayMode, "tier": o.Tier,
			})
		}
	}
	if len(nonReplayable) > 0 {
		if rep.Count() == 0 {
			harnessFail("non-replayable: %v did not reproduce in a fresh process", nonReplayable)
		}
		fmt.Fprintf(os.Stderr, "warning: %d candidate violation(s) did not reproduce in a fresh process and are NOT reported: %v\n", len(nonReplayable), nonReplayable)
	}
	if rs.compilerOutput != "" && rep.Count() == 0 {
		harnessFail("the routers gleece generated for %d of the projects do not compile and no violation was found on the rest: the check cannot say that %s held.\n%s", len(rs.uncompilable), prop, rs.compilerOutput)
	}
	wall := time.Since(start).Seconds()
	reqs := num(stats, "requests")
	cov := map[string]any{
		"evaluations":         reqs,
		"distinct_nontrivial": num(stats, "distinct_nontrivial"),
		"rule":                "one evaluation = one simulated client request executed on one of the five REAL generated routers (real frameworks, in-memory transport) under the cooperative seeded scheduler, its event history judged by the " + routerProps[prop] + "; distinct_nontrivial = distinct (project, request class, damaged parameters, value classes, group size) tuples in which a fault kind fired (damage, special value class, refusal, stray request, chunked body, controller error) or >= 2 requests were interleaved",
		"samples":             stats["samples"],
		"plans":               num(stats, "plans"),
		"groups":              num(stats, "groups"),
		"concurrent_groups":   num(stats, "concurrent_groups"),
		"yield_points_parked": num(stats, "parks"),
		"distinct_interleavings": num(stats, "distinct_interleavings"),
		"request_classes":     stats["request_classes"],
		"fault_kinds_fired":   stats["fault_kinds_fired"],
		"outcomes":            stats["outcomes"],
		"probes":              stats["probes"],
		"event_kinds":         stats["event_kinds"],
		"unjudged_policy_requests": num(stats, "unjudged_policy_requests"),
		"projects":            len(rs.projects),
		"rejected_workloads":  len(rs.rejected),
		"projects_with_uncompilable_generated_code": len(rs.uncompilable),
		"registration_failures": stats["registration_failures"],
		"requests_per_hour":   int(float64(reqs) / wall * 3600),
		"simulated_time":      "no clock in this subsystem (no timers; fiber's test timeout disabled)",
		"violations_of_other_router_properties_seen": otherProps,
		"known_findings_matched": rep.KnownMatched(),
		"known_finding_cases_replayed": knownReplayed,
		"known_finding_cases_gone":     knownGone,
		"non_replayable_candidates": len(nonReplayable),
		"components": map[string]any{
			"real": []string{"gleece CLI built from /repo's working tree (unmodified)", "the generated routes files for gin, echo, mux, chi, fiber", "gin, echo, gorilla/mux, chi, fiber/fasthttp", "go-playground/validator", "encoding/json", "the spec file gleece wrote (client reads it)"},
			"stub": []string{"transport (httptest recorder / fiber app.Test in-memory conn)", "authorization callback", "controller methods", "middlewares and custom validator", "clients and request body stream", "goroutine scheduling at yield points (one token, seeded)"},
		},
		"tree_fingerprint": rs.s.Fingerprint,
	}
	writeEvidence(o, start, cov, []string{
		"oracles come from projgen's ground truth, never from gleece's metadata",
		"framework-policy shapes (trailing slash, empty segment, case variants, encoded slash in a path value, empty header value) are generated but not judged",
		"only projects gleece accepts are explored (rejected ones are counted; >10% is a harness error)",
		"status codes of unserved requests and message texts are not compared",
	}, rep.Count())
	finish(o, rep)
}

func mustJSON(v any) []byte {
	b, err := json.Marshal(v)
	if err != nil {
		harnessFail("%v", err)
	}
	return b
}
