// vsim is the orchestrator of the deterministic-simulation checks.
package main

import (
	"fmt"
	"os"
	"strings"
)

func usage() {
	fmt.Fprintln(os.Stderr, "usage: vsim <gen|c13|c19|c15|c17|router|replay|selftest> ...")
	os.Exit(2)
}

func main() {
	if len(os.Args) < 2 {
		usage()
	}
	switch os.Args[1] {
	case "gen":
		cmdGen(os.Args[2:])
	case "smoke":
		cmdSmoke(os.Args[2:])
	case "c19":
		cmdC19(os.Args[2:])
	case "c02", "c03", "c05", "c12":
		cmdRouter(strings.ToUpper(os.Args[1]), os.Args[2:])
	case "replay":
		cmdReplay(os.Args[2:])
	case "selftest":
		cmdSelftest(os.Args[2:])
	case "c15":
		cmdC15(os.Args[2:])
	case "c17":
		cmdC17(os.Args[2:])
	case "c13":
		cmdC13(os.Args[2:])
	default:
		usage()
	}
}
