// gowrap is installed as "go" in front of PATH for simulated gleece runs.
// `go list` is a deterministic function of (arguments, working directory,
// file tree); project trees in a simulation batch are immutable, so its
// output is recorded on first use and replayed afterwards. Everything else is
// passed through to the real go binary (VERIF_REAL_GO).
package main

import (
	"bytes"
	"crypto/sha256"
	"encoding/hex"
	"encoding/json"
	"fmt"
	"os"
	"os/exec"
	"path/filepath"
	"strings"
	"syscall"
)

type rec struct {
	Stdout []byte `json:"stdout"`
	Stderr []byte `json:"stderr"`
	Exit   int    `json:"exit"`
}

func main() {
	real := os.Getenv("VERIF_REAL_GO")
	cache := os.Getenv("VERIF_GOLIST_CACHE")
	if real == "" {
		fmt.Fprintln(os.Stderr, "gowrap: VERIF_REAL_GO not set")
		os.Exit(2)
	}
	args := os.Args[1:]
	if cache == "" || len(args) == 0 || args[0] != "list" {
		err := syscall.Exec(real, append([]string{"go"}, args...), os.Environ())
		fmt.Fprintln(os.Stderr, "gowrap: exec:", err)
		os.Exit(2)
	}
	cwd, _ := os.Getwd()
	h := sha256.New()
	fmt.Fprintf(h, "%s\x00%s\x00", cwd, strings.Join(args, "\x00"))
	for _, k := range []string{"GOFLAGS", "GO111MODULE", "GOOS", "GOARCH", "CGO_ENABLED", "GOPATH", "GOROOT", "GOWORK", "GOPROXY"} {
		fmt.Fprintf(h, "%s=%s\x00", k, os.Getenv(k))
	}
	key := hex.EncodeToString(h.Sum(nil))[:32]
	path := filepath.Join(cache, key+".json")
	if raw, err := os.ReadFile(path); err == nil {
		var r rec
		if json.Unmarshal(raw, &r) == nil {
			os.Stdout.Write(r.Stdout)
			os.Stderr.Write(r.Stderr)
			os.Exit(r.Exit)
		}
	}
	cmd := exec.Command(real, args...)
	var so, se bytes.Buffer
	cmd.Stdout, cmd.Stderr = &so, &se
	cmd.Stdin = os.Stdin
	err := cmd.Run()
	r := rec{Stdout: so.Bytes(), Stderr: se.Bytes()}
	if err != nil {
		if ee, ok := err.(*exec.ExitError); ok {
			r.Exit = ee.ExitCode()
		} else {
			fmt.Fprintln(os.Stderr, "gowrap:", err)
			os.Exit(2)
		}
	}
	os.MkdirAll(cache, 0o755)
	b, _ := json.Marshal(r)
	tmp := fmt.Sprintf("%s.%d.tmp", path, os.Getpid())
	if os.WriteFile(tmp, b, 0o644) == nil {
		os.Rename(tmp, path)
	}
	os.Stdout.Write(r.Stdout)
	os.Stderr.Write(r.Stderr)
	os.Exit(r.Exit)
}
