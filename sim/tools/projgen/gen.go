package projgen

import (
	"fmt"
	"os"
	"sort"
	"strings"
)

var verbs = []string{"GET", "POST", "PUT", "DELETE", "PATCH"}

var litSegs = []string{"items", "users", "v1", "orders", "x-y", "a_b", "list", "k9", "reports", "meta"}
var paramNames = []string{"id", "key", "slug", "num", "ref", "code", "order-ref", "item_id"}
var queryNames = []string{"limit", "page", "q", "sort", "flag", "ratio", "tags", "since", "level", "mode", "page-size", "sort_by"}
var headerWire = []string{"X-Trace", "x-token", "X-Req-Id", "x-flag", "X-Num"}
var formNames = []string{"title", "count", "active", "note", "amount", "first-name", "zip_code"}
var scopeWords = []string{"read", "write", "admin", "class", "method", "other"}

var intPrims = []string{"int", "int8", "int16", "int32", "int64", "uint", "uint8", "uint16", "uint32", "uint64"}
var allPrims = append([]string{"string", "bool", "float32", "float64"}, intPrims...)

type genState struct {
	p       *Project
	r       *Rand
	profile string
	ctlPkgs []string
	mdlPkgs []string
	nStruct int
	nEnum   int
	nAlias  int
	used    map[string]bool // type names used per pkg: "pkg.Name"
	chain   bool            // newAlias must declare the alias on top of an existing one (if any is visible)
	nested  bool            // some model package lives in a directory nested in a controller package
}

// Generate draws a project. profile: "order" (rich type graph, several
// packages/files, same-named models) or "router" (parameter/security focused).
func Generate(seed uint64, profile string) *Project {
	r := Stream(seed, "projgen/"+profile, 0)
	p := &Project{Seed: seed, Profile: profile}
	g := &genState{p: p, r: r, profile: profile, used: map[string]bool{}}

	// configuration swarm
	p.OpenAPI = Pick(r, []string{"3.0.0", "3.1.0"})
	p.ValidateRsp = r.Chance(1, 3)
	p.ExpTopEnum = r.Chance(1, 2)
	p.ExpEnumVal = r.Chance(1, 2)
	nSchemes := r.Range(1, 3)
	if profile == "order" {
		nSchemes = r.Range(2, 4)
	}
	for i := 0; i < nSchemes; i++ {
		p.Schemes = append(p.Schemes, fmt.Sprintf("sec%d", i+1))
	}
	if r.Chance(1, 2) {
		a := g.alt()
		p.Default = &a
	}

	// packages
	nCtlPkg := r.Range(1, 3)
	if profile == "order" && r.Chance(2, 3) {
		nCtlPkg = r.Range(2, 3)
	}
	for i := 0; i < nCtlPkg; i++ {
		g.ctlPkgs = append(g.ctlPkgs, fmt.Sprintf("ctl%c", 'a'+i))
	}
	nMdl := r.Range(0, 2)
	if profile == "order" {
		nMdl = r.Range(1, 2)
	}
	// (swarm, own stream so that the rest of the project does not depend on it) a model package may live in a
	// directory NESTED in a controller package's directory, under a name that sorts before, between or after
	// the parent's own source files
	nr := Stream(seed, "projgen/nested/"+profile, 0)
	for i := 0; i < nMdl; i++ {
		name := fmt.Sprintf("mdl%c", 'a'+i)
		if nr.Chance(1, 2) {
			parent := Pick(nr, g.ctlPkgs)
			// "<parent>_f0_": right after the file that declares the parent's first controller, before its other files
			name = parent + "/" + Pick(nr, []string{"", "a0", parent + "_f0_", parent + "_f0_", "ctlb_", "ctlz_", "zz"}) + name
			g.nested = true
		}
		g.mdlPkgs = append(g.mdlPkgs, name)
	}

	// a pool of model types
	nTypes := r.Range(1, 4)
	if profile == "order" {
		nTypes = r.Range(3, 7)
		if r.Chance(1, 2) {
			g.newAlias() // a base alias, (often) one declared on top of it ...
			g.chain = r.Chance(1, 2)
			g.newAlias()
			g.chain = false
			if r.Chance(1, 2) {
				g.chain = true // ... and a third that is certainly declared on the latest one it may name
				g.newAlias()
				g.chain = false
			}
		}
	}
	for i := 0; i < nTypes; i++ {
		switch r.Intn(4) {
		case 0:
			g.newEnum()
		case 1:
			g.newAlias()
		default:
			g.newStruct(0)
		}
	}
	if len(p.Structs) == 0 {
		g.newStruct(0)
	}
	if r.Chance(1, 2) {
		// a custom error type (a struct embedding error) some methods return instead of error; gleece only
		// resolves it when it is declared in the controller's own package
		pkg := Pick(r, g.ctlPkgs)
		p.Structs = append(p.Structs, Struct{Name: "ApiErr", Pkg: pkg, File: g.typeFile(pkg), IsError: true,
			Fields: []Field{{GoName: "Message", JSON: "message", Type: TypeRef{Kind: "prim", Prim: "string"}}, {GoName: "Code", JSON: "code", Type: TypeRef{Kind: "prim", Prim: "int"}}}})
	}
	// same-named structs in two packages (accepted by gleece; C13 workload)
	if profile == "order" && len(g.allPkgs()) >= 2 && r.Chance(1, 3) {
		pk := g.allPkgs()
		Shuffle(r, pk)
		name := "Item"
		for _, pkg := range pk[:2] {
			if g.used[pkg+"."+name] {
				continue
			}
			g.used[pkg+"."+name] = true
			s := Struct{Name: name, Pkg: pkg, File: g.typeFile(pkg)}
			nf := r.Range(1, 3)
			for f := 0; f < nf; f++ {
				s.Fields = append(s.Fields, g.acyclic(pkg, g.field(pkg, f, 1)))
			}
			// make the two differ
			s.Fields = append(s.Fields, Field{GoName: "From" + strings.Title(PkgName(pkg)), JSON: "from_" + PkgName(pkg), Type: TypeRef{Kind: "prim", Prim: "string"}})
			p.Structs = append(p.Structs, s)
		}
	}

	// controllers
	nCtl := r.Range(1, 4)
	if profile == "order" {
		nCtl = r.Range(2, 4)
	}
	maxRoutes := 8
	total := 0
	for i := 0; i < nCtl; i++ {
		pkg := g.ctlPkgs[i%len(g.ctlPkgs)]
		if i >= len(g.ctlPkgs) {
			pkg = Pick(r, g.ctlPkgs)
		}
		c := Controller{Name: fmt.Sprintf("Ctl%c", 'A'+i), Pkg: pkg}
		nFiles := r.Range(1, 3)
		c.File = fmt.Sprintf("%s_f%d.go", strings.ToLower(c.Name), 0)
		if profile == "order" && r.Chance(1, 3) {
			// several controllers declared in ONE file (the file of an earlier controller of the package)
			for _, prev := range p.Controllers {
				if prev.Pkg == pkg {
					c.File = prev.File
					break
				}
			}
		}
		files := []string{c.File}
		for f := 1; f < nFiles; f++ {
			if r.Chance(1, 2) {
				files = append(files, fmt.Sprintf("%s_f%d.go", strings.ToLower(c.Name), f))
			} else {
				files = append(files, fmt.Sprintf("shared_%d.go", f)) // a file several controllers of the package may share
			}
		}
		if r.Chance(4, 5) {
			c.HasRoute = true
			c.Route = g.ctlRoute(i)
		}
		if r.Chance(2, 3) {
			c.Tag = fmt.Sprintf("Tag%c", 'A'+i)
		}
		if r.Chance(1, 2) {
			c.Desc = fmt.Sprintf("Controller %s does things", c.Name)
		}
		if r.Chance(1, 3) {
			n := r.Range(1, 2)
			for k := 0; k < n; k++ {
				c.Security = append(c.Security, g.alt())
			}
		}
		nM := r.Range(1, 4)
		if total+nM > maxRoutes {
			nM = maxRoutes - total
		}
		if nM < 1 {
			nM = 1
		}
		for m := 0; m < nM; m++ {
			c.Methods = append(c.Methods, g.method(&c, m, Pick(r, files)))
		}
		if r.Chance(1, 2) && total+len(c.Methods) < maxRoutes {
			// a literal sibling of a parameter route (same verb): /items/{id} + /items/featured
			for mi := range c.Methods {
				m := c.Methods[mi]
				segs := Segments(NormPath("", m.Route))
				if len(segs) == 0 || !IsParamSeg(segs[len(segs)-1]) || strings.HasSuffix(m.Route, "/") {
					continue
				}
				sib := Method{Name: "Featured" + strings.TrimPrefix(c.Name, "Ctl") + fmt.Sprint(mi), File: m.File, Verb: m.Verb, Ret: "error"}
				idx := strings.LastIndex(m.Route, "{")
				sib.Route = m.Route[:idx] + "featured"
				last := strings.Trim(segs[len(segs)-1], "{}")
				for _, prm := range m.Params {
					if prm.Loc == "path" && prm.WireName() != last {
						sib.Params = append(sib.Params, prm) // the other path parameters are still bound
					}
				}
				if r.Chance(1, 2) {
					// a string parameter accepts the literal's text, so a router that hands the literal path
					// to the parameter route invokes the WRONG method instead of failing to convert
					for pi := range c.Methods[mi].Params {
						if c.Methods[mi].Params[pi].Loc == "path" && c.Methods[mi].Params[pi].WireName() == last {
							c.Methods[mi].Params[pi].Type = TypeRef{Kind: "prim", Prim: "string"}
							c.Methods[mi].Params[pi].Validate = ""
						}
					}
				}
				if r.Chance(1, 2) {
					// declared (hence registered) BEFORE the parameter route ...
					c.Methods = append(c.Methods[:mi], append([]Method{sib}, c.Methods[mi:]...)...)
				} else {
					// ... or after it
					c.Methods = append(c.Methods, sib)
				}
				break
			}
		}
		total += len(c.Methods)
		p.Controllers = append(p.Controllers, c)
	}

	if profile == "router" && r.Chance(1, 2) {
		// a "slash twin": another controller whose prefix is the full path of an existing route and whose
		// method route is "/", on the same verb: /api/items (A.GetItems) next to /api/items/ (X.Index)
		var cands []Route
		for _, rt := range p.Routes() {
			ok := rt.Path != "/" && !strings.HasSuffix(rt.Path, "/") && !strings.Contains(rt.Ctrl.Route+rt.M.Route, "//")
			for _, sg := range rt.Segs {
				if IsParamSeg(sg) {
					ok = false
				}
			}
			if ok {
				cands = append(cands, rt)
			}
		}
		if len(cands) > 0 {
			rt := Pick(r, cands)
			x := Controller{Name: "CtlX", Pkg: rt.Ctrl.Pkg, File: "ctlx_f0.go", HasRoute: true, Route: rt.Path}
			x.Methods = []Method{{Name: "XIndex", File: x.File, Verb: rt.M.Verb, Route: "/", Ret: "error"}}
			p.Controllers = append(p.Controllers, x)
		}
	}

	// (swarm, own stream) with generateEnumValidator gleece registers a validator "<snake name>_enum" per enum:
	// string-enum parameters and struct fields without another validator may name it
	if er := Stream(seed, "projgen/enum-validator/"+profile, 0); p.ExpEnumVal {
		tag := func(t TypeRef) string {
			if t.Kind != "enum" || t.Prim != "string" || t.Slice || t.Map || !strings.HasPrefix(t.Name, "Enum") {
				return ""
			}
			return "enum_" + strings.TrimPrefix(t.Name, "Enum") + "_enum" // strcase.ToSnake("Enum7") + "_enum"
		}
		for ci := range p.Controllers {
			for mi := range p.Controllers[ci].Methods {
				for pi := range p.Controllers[ci].Methods[mi].Params {
					prm := &p.Controllers[ci].Methods[mi].Params[pi]
					if v := tag(prm.Type); v != "" && prm.Validate == "" && prm.Loc != "body" && er.Chance(3, 4) {
						prm.Validate = v
					}
				}
			}
		}
		for si := range p.Structs {
			for fi := range p.Structs[si].Fields {
				f := &p.Structs[si].Fields[fi]
				if v := tag(f.Type); v != "" && f.Validate == "" && !f.Type.Ptr && er.Chance(3, 4) {
					f.Validate = v
				}
			}
		}
	}

	// (swarm, order profile, own stream) a controller declared in a MODEL package: whether it is part of the API
	// depends on the globs alone (a package that is only loaded on demand, for its types, contributes none)
	if or := Stream(seed, "projgen/outside-controller/"+profile, 0); profile == "order" && len(g.mdlPkgs) > 0 && or.Chance(1, 3) {
		pkg := Pick(or, g.mdlPkgs)
		x := Controller{Name: "CtlM", Pkg: pkg, File: "ctlm_f0.go", HasRoute: true, Route: "/outside"}
		x.Methods = []Method{{Name: "MIndex", File: x.File, Verb: "GET", Route: "/m-index", Ret: "error"}}
		p.Controllers = append(p.Controllers, x)
	}

	// (swarm, own stream) controllers declared inside a documented "type ( ... )" block; order profile: enums with
	// one more constant that repeats the first one's value
	sr2 := Stream(seed, "projgen/decl-shapes/"+profile, 0)
	for ci := range p.Controllers {
		if sr2.Chance(1, 4) {
			p.Controllers[ci].Grouped = true
		}
	}
	if profile == "order" {
		for ei := range p.Enums {
			if sr2.Chance(1, 3) {
				p.Enums[ei].AliasConst = true
			}
		}
	}

	// (swarm, own stream) a controller with NO doc comment at all (no @Route, @Tag, description, @Security) that
	// is not the first of its package: whatever gleece remembers from the declaration before it must not leak
	if br := Stream(seed, "projgen/bare-controller/"+profile, 0); br.Chance(1, 4) && len(p.Controllers) > 1 {
		ci := 1 + br.Intn(len(p.Controllers)-1)
		if c := &p.Controllers[ci]; c.Name != "CtlX" {
			c.HasRoute, c.Route, c.Tag, c.Desc, c.Security = false, "", "", "", nil
			for mi := range c.Methods {
				// method routes that leaned on a controller route ending in a slash
				if !strings.HasPrefix(c.Methods[mi].Route, "/") {
					c.Methods[mi].Route = "/" + c.Methods[mi].Route
				}
			}
		}
	}

	g.fixOverlaps()

	// (swarm, own stream) two controllers of one package declaring a method of the SAME name: legal as long as at
	// most one of the two is documented (operation ids must be unique in the spec), so the later one is hidden
	if sr := Stream(seed, "projgen/same-method-name/"+profile, 0); sr.Chance(1, 3) {
	pairs:
		for i := range p.Controllers {
			for j := i + 1; j < len(p.Controllers); j++ {
				a, b := &p.Controllers[i], &p.Controllers[j]
				if a.Pkg != b.Pkg || len(a.Methods) == 0 || len(b.Methods) == 0 || a.Name == "CtlX" || b.Name == "CtlX" {
					continue
				}
				name := Pick(sr, a.Methods).Name
				clash := false
				for _, m := range b.Methods {
					clash = clash || m.Name == name
				}
				if clash {
					continue
				}
				mi := sr.Intn(len(b.Methods))
				for k, m := range b.Methods {
					if m.Hidden {
						mi = k // prefer one that is hidden already
					}
				}
				b.Methods[mi].Name, b.Methods[mi].Hidden = name, true
				break pairs
			}
		}
	}

	// enforce only if ground truth says every route is secured
	allSecured := true
	for _, rt := range p.Routes() {
		if len(rt.Security) == 0 {
			allSecured = false
		}
	}
	p.Enforce = allSecured && r.Chance(1, 2)

	// template extensions (swarm; comment-only, engine independent): exercises the generator's map walks
	if profile == "order" && r.Chance(1, 2) {
		names := []string{"RegisterRoutesExtension", "RouteStartRoutesExtension", "BeforeOperationRoutesExtension", "AfterOperationRoutesExtension",
			"RouteEndRoutesExtension", "TypeDeclarationsExtension", "FunctionDeclarationsExtension", "JsonResponseExtension"}
		Shuffle(r, names)
		p.Extensions = append(p.Extensions, names[:r.Range(2, 4)]...)
	}

	// globs (swarm): per-package, or one wildcard over all first-level dirs
	if r.Chance(1, 3) {
		p.Globs = []string{"./*/*.go"}
	} else {
		for _, pk := range g.ctlPkgs {
			p.Globs = append(p.Globs, "./"+pk+"/*.go")
		}
		if r.Chance(1, 2) {
			Shuffle(r, p.Globs)
		}
	}
	// (swarm, own stream) deep globs: "./pkg/**/*.go" also matches the files of packages nested below pkg
	deepOdds := 5 // of 6 when nothing is nested below a controller package: one in six projects
	if g.nested {
		deepOdds = 2 // of 6 otherwise: four in six
	}
	if dr := Stream(seed, "projgen/deep-globs/"+profile, 0); !dr.Chance(deepOdds, 6) {
		for gi, glob := range p.Globs {
			if glob != "./*/*.go" && strings.HasSuffix(glob, "/*.go") {
				p.Globs[gi] = strings.TrimSuffix(glob, "/*.go") + "/**/*.go"
			}
		}
	}
	// (swarm, own stream) import styles
	p.ImportStyles = Stream(seed, "projgen/import-styles/"+profile, 0).Chance(1, 2)
	// (swarm, order profile, own stream) globs that select only SOME files of a controller package: the files
	// named after a strict, non-empty subset of the package's controllers. Controllers declared in the other
	// files are not part of the API; types declared there are still resolved through the package.
	if gr := Stream(seed, "projgen/partial-globs/"+profile, 0); profile == "order" && gr.Chance(1, 2) {
		for gi, glob := range p.Globs {
			if glob == "./*/*.go" || strings.Contains(glob, "**") {
				continue
			}
			pkg := strings.TrimSuffix(strings.TrimPrefix(glob, "./"), "/*.go")
			var names []string
			for _, c := range p.Controllers {
				if c.Pkg == pkg {
					names = append(names, strings.ToLower(c.Name))
				}
			}
			if len(names) < 2 {
				continue
			}
			Shuffle(gr, names)
			keep := names[:gr.Range(1, len(names)-1)]
			sort.Strings(keep)
			var repl []string
			for _, n := range keep {
				repl = append(repl, "./"+pkg+"/"+n+"_*.go")
			}
			p.Globs = append(append(append([]string{}, p.Globs[:gi]...), repl...), p.Globs[gi+1:]...)
			p.PartialGlobs = true
			break
		}
	}
	return p
}

func (g *genState) allPkgs() []string {
	return append(append([]string{}, g.ctlPkgs...), g.mdlPkgs...)
}

func (g *genState) alt() Alt {
	a := Alt{Scheme: Pick(g.r, g.p.Schemes), Scopes: []string{}}
	n := g.r.Range(0, 2)
	for i := 0; i < n; i++ {
		a.Scopes = append(a.Scopes, Pick(g.r, scopeWords))
	}
	if n == 0 && g.r.Chance(1, 2) {
		a.Bare = true
	}
	return a
}

func (g *genState) typeFile(pkg string) string {
	if isMdl(pkg) {
		return fmt.Sprintf("types_%d.go", g.r.Range(0, 1))
	}
	switch g.r.Intn(6) {
	case 0, 1:
		// the file that declares the package's first controller (controller i lives in ctl<i> and is declared in ctl<i>_f0.go)
		return pkg + "_f0.go"
	case 2, 3:
		return "types.go"
	}
	return fmt.Sprintf("shared_%d.go", g.r.Range(1, 2))
}

func (g *genState) typePkg() string {
	if len(g.mdlPkgs) > 0 && g.r.Chance(1, 2) {
		return Pick(g.r, g.mdlPkgs)
	}
	return Pick(g.r, g.ctlPkgs)
}

func (g *genState) newEnum() TypeRef {
	g.nEnum++
	pkg := g.typePkg()
	e := Enum{Name: fmt.Sprintf("Enum%d", g.nEnum), Pkg: pkg, File: g.typeFile(pkg)}
	if g.r.Chance(2, 3) {
		e.Prim = "string"
		// members with characters that HTML-escaping template helpers would mangle are legal constants too
		pool := []string{"alpha", "beta", "gamma", "delta", "x-1", "Z", "R&D", "a<b"}
		Shuffle(g.r, pool)
		for _, v := range pool[:g.r.Range(2, 4)] {
			e.Values = append(e.Values, fmt.Sprintf("%q", v))
		}
	} else {
		e.Prim = Pick(g.r, []string{"int", "int32", "uint8", "int64"})
		pool := []string{"1", "2", "3", "5", "8", "13"}
		Shuffle(g.r, pool)
		e.Values = append(e.Values, pool[:g.r.Range(2, 4)]...)
	}
	if g.profile == "order" && g.r.Chance(1, 2) {
		// constants of one enum spread over two files of the package (file names chosen to sort on both sides)
		e.SplitFile = Pick(g.r, []string{"aa_consts.go", "zz_consts.go"})
	}
	g.p.Enums = append(g.p.Enums, e)
	return TypeRef{Kind: "enum", Prim: e.Prim, Pkg: e.Pkg, Name: e.Name}
}

func (g *genState) newAlias() TypeRef {
	g.nAlias++
	pkg := g.typePkg()
	if g.chain && len(g.p.Aliases) > 0 {
		pkg = g.p.Aliases[len(g.p.Aliases)-1].Pkg // where the latest alias is certainly visible
	}
	a := Alias{Name: fmt.Sprintf("Alias%d", g.nAlias), Pkg: pkg, File: g.typeFile(pkg), Prim: Pick(g.r, []string{"string", "int", "int64", "float64", "bool", "uint16"})}
	if g.profile == "order" && (g.r.Chance(1, 2) || g.chain) {
		// an alias declared on top of another alias (of the same package, or of a model package a controller
		// package may import)
		// (any earlier alias may be the base, also one that is itself declared on another: chains of depth >= 2)
		var bases []Alias
		for _, b := range g.p.Aliases {
			if b.Pkg == pkg || (!isMdl(pkg) && isMdl(b.Pkg)) {
				bases = append(bases, b)
			}
		}
		if len(bases) > 0 {
			b := bases[len(bases)-1]
			if g.r.Chance(1, 3) {
				b = Pick(g.r, bases)
			}
			a.OfPkg, a.OfName, a.Prim = b.Pkg, b.Name, b.Prim
		}
	}
	g.p.Aliases = append(g.p.Aliases, a)
	return TypeRef{Kind: "alias", Prim: a.Prim, Pkg: a.Pkg, Name: a.Name}
}

func (g *genState) field(pkg string, idx int, depth int) Field {
	f := Field{GoName: fmt.Sprintf("F%d", idx), JSON: fmt.Sprintf("f%d", idx)}
	switch k := g.r.Intn(10); {
	case k < 5:
		f.Type = TypeRef{Kind: "prim", Prim: Pick(g.r, allPrims)}
		if g.r.Chance(1, 4) {
			f.Type.Slice = true
		} else if g.r.Chance(1, 5) {
			f.Type.Ptr = true
		}
	case k < 6 && len(g.p.Enums) > 0:
		e := Pick(g.r, g.p.Enums)
		f.Type = TypeRef{Kind: "enum", Prim: e.Prim, Pkg: e.Pkg, Name: e.Name}
	case k < 7 && len(g.p.Aliases) > 0:
		a := Pick(g.r, g.p.Aliases)
		f.Type = TypeRef{Kind: "alias", Prim: a.Prim, Pkg: a.Pkg, Name: a.Name}
	case k < 9 && len(g.p.Structs) > 0 && depth < 3:
		s := Pick(g.r, g.p.Structs)
		if !s.IsError {
			f.Type = TypeRef{Kind: "struct", Pkg: s.Pkg, Name: s.Name}
			switch g.r.Intn(3) {
			case 0:
				f.Type.Ptr = true
			case 1:
				f.Type.Slice = true
			}
			break
		}
		fallthrough
	default:
		f.Type = TypeRef{Kind: "prim", Prim: "string"}
	}
	if f.Type.Kind == "prim" && !f.Type.Slice {
		switch {
		case f.Type.Prim == "string" && g.r.Chance(1, 3):
			f.Validate = Pick(g.r, []string{"required", "min=1,max=20", "omitempty,max=40", "required,sim_probe", "oneof=north south east"})
		case strings.Contains(f.Type.Prim, "int") && g.r.Chance(1, 4):
			f.Validate = Pick(g.r, []string{"gte=0", "lte=100", "gte=1,lte=9"})
		}
	}
	return f
}

// acyclic keeps the package import graph acyclic: a struct may only refer to
// types of its own package or of model packages, and model packages only
// import alphabetically smaller model packages.
func (g *genState) acyclic(pkg string, f Field) Field {
	if f.Type.Pkg != "" && f.Type.Pkg != pkg && !isMdl(f.Type.Pkg) {
		f.Type = TypeRef{Kind: "prim", Prim: "string"}
		f.Validate = ""
	}
	if f.Type.Pkg != "" && f.Type.Pkg != pkg && isMdl(pkg) && f.Type.Pkg >= pkg {
		f.Type = TypeRef{Kind: "prim", Prim: "int"}
		f.Validate = ""
	}
	return f
}

func (g *genState) newStruct(depth int) TypeRef {
	g.nStruct++
	pkg := g.typePkg()
	s := Struct{Name: fmt.Sprintf("Model%d", g.nStruct), Pkg: pkg, File: g.typeFile(pkg)}
	g.used[pkg+"."+s.Name] = true
	n := g.r.Range(1, 4)
	for i := 0; i < n; i++ {
		s.Fields = append(s.Fields, g.acyclic(pkg, g.field(pkg, i, depth+1)))
	}
	// (swarm, own stream) a time.Time field; an EMBEDDED struct (anonymous field, promoted and flattened in JSON):
	// own fields are then named after the embedding depth so that no promoted name or JSON key collides
	xr := Stream(g.p.Seed, "projgen/struct-extras/"+s.Name, 0)
	if xr.Chance(1, 5) {
		s.Fields = append(s.Fields, Field{GoName: "At", JSON: "at", Type: TypeRef{Kind: "time"}})
	}
	if xr.Chance(1, 2) {
		var cands []Struct
		for _, e := range g.p.Structs {
			if !e.IsError && e.Name != "Item" && (e.Pkg == pkg || (isMdl(e.Pkg) && (!isMdl(pkg) || e.Pkg < pkg))) {
				cands = append(cands, e)
			}
		}
		if len(cands) > 0 {
			e := Pick(xr, cands)
			s.EmbedDepth = e.EmbedDepth + 1
			letter := string(rune('F' + s.EmbedDepth))
			for i := range s.Fields {
				if strings.HasPrefix(s.Fields[i].GoName, "F") {
					s.Fields[i].GoName = letter + s.Fields[i].GoName[1:]
					s.Fields[i].JSON = strings.ToLower(letter) + s.Fields[i].JSON[1:]
				}
			}
			s.Fields = append([]Field{{GoName: e.Name, Type: TypeRef{Kind: "struct", Pkg: e.Pkg, Name: e.Name}, Embedded: true}}, s.Fields...)
		}
	}
	// self-recursion through a pointer (materialisation cache / in-progress guard)
	if g.profile == "order" && g.r.Chance(1, 5) {
		s.Fields = append(s.Fields, Field{GoName: "Next", JSON: "next", Type: TypeRef{Kind: "struct", Pkg: pkg, Name: s.Name, Ptr: true}})
	}
	if g.r.Chance(1, 3) {
		s.Desc = s.Name + " is a model"
	}
	g.p.Structs = append(g.p.Structs, s)
	return TypeRef{Kind: "struct", Pkg: s.Pkg, Name: s.Name}
}

func (g *genState) ctlRoute(i int) string {
	base := []string{"/api", "/svc", "/v2", "/root", "/z"}[i%5]
	switch g.r.Intn(8) {
	case 0:
		return base + "/" // trailing slash: method routes may then omit their leading slash
	case 1:
		return base + "//" + Pick(g.r, litSegs) // doubled slash
	case 2, 3:
		return base + "/" + Pick(g.r, litSegs)
	}
	return base
}

// visibleFrom: may a controller in pkg refer to type t?
func visibleFrom(pkg string, t TypeRef) bool {
	if t.Pkg == "" || t.Pkg == pkg {
		return true
	}
	return isMdl(t.Pkg) // controller packages import model packages only
}

func (g *genState) pickNamed(pkg, kind string) (TypeRef, bool) {
	var cands []TypeRef
	switch kind {
	case "enum":
		for _, e := range g.p.Enums {
			cands = append(cands, TypeRef{Kind: "enum", Prim: e.Prim, Pkg: e.Pkg, Name: e.Name})
		}
	case "alias":
		for _, a := range g.p.Aliases {
			if a.OfName != "" {
				continue // gleece only accepts aliases of primitives as non-body parameters; alias-of-alias types appear in models
			}
			cands = append(cands, TypeRef{Kind: "alias", Prim: a.Prim, Pkg: a.Pkg, Name: a.Name})
		}
	case "struct":
		for _, s := range g.p.Structs {
			if !s.IsError {
				cands = append(cands, TypeRef{Kind: "struct", Pkg: s.Pkg, Name: s.Name})
			}
		}
	}
	var vis []TypeRef
	for _, c := range cands {
		if visibleFrom(pkg, c) {
			vis = append(vis, c)
		}
	}
	if len(vis) == 0 {
		return TypeRef{}, false
	}
	return Pick(g.r, vis), true
}

func (g *genState) simpleType(pkg string, allowSlice bool) TypeRef {
	var t TypeRef
	switch k := g.r.Intn(10); {
	case k < 2:
		if e, ok := g.pickNamed(pkg, "enum"); ok {
			t = e
			break
		}
		fallthrough
	case k < 3:
		if a, ok := g.pickNamed(pkg, "alias"); ok {
			t = a
			break
		}
		fallthrough
	default:
		t = TypeRef{Kind: "prim", Prim: Pick(g.r, allPrims)}
	}
	if allowSlice && t.Kind == "prim" && g.r.Chance(1, 4) {
		t.Slice = true
	} else if g.r.Chance(1, 4) {
		t.Ptr = true
	}
	return t
}

func validateFor(r *Rand, t TypeRef) string {
	if t.Slice || t.Kind != "prim" {
		if r.Chance(1, 6) {
			return "required"
		}
		return ""
	}
	switch {
	case t.Prim == "string":
		// sim_probe is the custom validator the simulator registers on every engine (a yield point)
		return Pick(r, []string{"", "", "required", "min=2", "max=8", "required,min=1,max=12", "sim_probe", "required,sim_probe", "oneof=red green blue", "required,oneof=ab cd"})
	case t.Prim == "bool":
		return ""
	case strings.HasPrefix(t.Prim, "float"):
		return Pick(r, []string{"", "", "gte=0", "lte=1000"})
	default:
		return Pick(r, []string{"", "", "gte=1", "lte=100", "required,gte=2,lte=50", "oneof=3 5 8"})
	}
}

func (g *genState) method(c *Controller, idx int, file string) Method {
	r := g.r
	m := Method{Name: fmt.Sprintf("%sOp%d", strings.TrimPrefix(c.Name, "Ctl"), idx), File: file, Verb: Pick(r, verbs)}
	if r.Chance(1, 3) {
		// realistic names; uniqueness is restored below
		m.Name = Pick(r, []string{"List", "Create", "Fetch", "Remove", "Update", "Search"}) + fmt.Sprintf("%s%d", strings.TrimPrefix(c.Name, "Ctl"), idx)
	}
	usedGo := map[string]bool{}
	usedWire := map[string]bool{} // per location
	// path params of the controller prefix must be bound by every method
	var pathNames []string
	// (gleece's linker only knows the method route's {names}; parameters in a
	// controller prefix are rejected, so projgen does not emit them)
	// method route
	nSeg := r.Range(0, 3)
	var segs []string
	for i := 0; i < nSeg; i++ {
		if r.Chance(1, 3) {
			pn := Pick(r, paramNames)
			if g.profile == "router" && !r.Chance(wildcardFreedom(), 30) {
				// one wildcard name per position+prefix: gin refuses to register sibling templates whose
				// wildcard names differ (a framework restriction, kept rare on purpose)
				pn = paramNames[hashStr(7, c.Route+"/"+strings.Join(segs, "/"))%uint64(len(paramNames))]
			}
			dup := false
			for _, x := range pathNames {
				if x == pn {
					dup = true
				}
			}
			if !dup {
				pathNames = append(pathNames, pn)
				segs = append(segs, "{"+pn+"}")
				continue
			}
		}
		segs = append(segs, Pick(r, litSegs))
	}
	route := strings.Join(segs, "/")
	ctlEndsWithSlash := c.HasRoute && strings.HasSuffix(c.Route, "/")
	switch r.Intn(6) {
	case 0: // no leading slash: only where the concatenation still starts a new segment
		if !ctlEndsWithSlash {
			route = "/" + route
		}
	case 1:
		route = "/" + route
		if len(segs) > 0 && g.profile == "order" {
			route += "/" // trailing slash (kept in the documented path)
		}
	case 2:
		if len(segs) >= 2 {
			route = "/" + segs[0] + "//" + strings.Join(segs[1:], "/") // doubled
		} else {
			route = "/" + route
		}
	default:
		route = "/" + route
	}
	if route == "" {
		// gleece silently ignores a method whose @Route value is empty (it is then not an API endpoint at
		// all), so an empty method route is not an "annotated route" of the explored space
		route = "/"
	}
	m.Route = route

	for _, pn := range pathNames {
		p := Param{Loc: "path", Type: g.simpleType(c.Pkg, false)}
		if p.Type.Prim == "bool" && p.Type.Kind == "prim" {
			p.Type.Prim = "int"
		}
		if r.Chance(1, 3) || goIdent(pn) != pn {
			p.GoName = goIdent(pn) + "Arg"
			p.Wire = pn
		} else {
			p.GoName = pn
		}
		if r.Chance(1, 4) {
			p.Validate = validateFor(r, p.Type)
		}
		usedGo[p.GoName] = true
		m.Params = append(m.Params, p)
	}
	// other params
	nQ := r.Range(0, 2)
	for i := 0; i < nQ; i++ {
		n := Pick(r, queryNames)
		if usedWire["q:"+n] || usedGo[n] {
			continue
		}
		p := Param{Loc: "query", GoName: n, Type: g.simpleType(c.Pkg, true)}
		if r.Chance(1, 4) || goIdent(n) != n {
			p.GoName = goIdent(n) + "Q"
			p.Wire = n
		}
		if usedGo[p.GoName] {
			continue
		}
		p.Validate = validateFor(r, p.Type)
		usedWire["q:"+n], usedGo[p.GoName] = true, true
		m.Params = append(m.Params, p)
	}
	nH := r.Range(0, 1)
	if r.Chance(1, 4) {
		nH = 2
	}
	for i := 0; i < nH; i++ {
		w := Pick(r, headerWire)
		if usedWire["h:"+strings.ToLower(w)] {
			continue
		}
		goName := "h" + strings.ReplaceAll(strings.ReplaceAll(strings.Title(strings.ToLower(w)), "-", ""), "_", "")
		if usedGo[goName] {
			continue
		}
		p := Param{Loc: "header", GoName: goName, Wire: w, Type: g.simpleType(c.Pkg, false)}
		p.Validate = validateFor(r, p.Type)
		usedWire["h:"+strings.ToLower(w)], usedGo[goName] = true, true
		m.Params = append(m.Params, p)
	}
	canBody := m.Verb == "POST" || m.Verb == "PUT" || m.Verb == "PATCH"
	if canBody {
		switch r.Intn(4) {
		case 0, 1:
			if st, ok := g.pickNamed(c.Pkg, "struct"); ok {
				switch r.Intn(5) {
				case 0:
					st.Ptr = true
				case 1:
					st.Slice = true
				case 2:
					// maps only in the order profile: the routes file gleece emits for a map-typed body or
					// result does not compile (invalid import alias "ResponseNmap[string]T"), which is C09's subject
					st.Map = g.profile == "order"
				}
				p := Param{Loc: "body", GoName: "payload", Type: st}
				if st.Ptr && r.Chance(1, 2) {
					p.Validate = "required"
				}
				m.Params = append(m.Params, p)
			}
		case 2:
			nF := r.Range(1, 2)
			for i := 0; i < nF; i++ {
				n := Pick(r, formNames)
				if usedWire["f:"+n] || usedGo[n] {
					continue
				}
				p := Param{Loc: "form", GoName: n, Type: g.simpleType(c.Pkg, false)}
				if goIdent(n) != n {
					p.GoName, p.Wire = goIdent(n)+"F", n
				}
				if usedGo[p.GoName] {
					continue
				}
				p.Validate = validateFor(r, p.Type)
				usedWire["f:"+n], usedGo[p.GoName] = true, true
				m.Params = append(m.Params, p)
			}
		}
	}
	if r.Chance(1, 4) {
		m.Params = append(m.Params, Param{Loc: "context", GoName: "ctx"})
	}
	// parameter order in the signature is independent of annotation order
	Shuffle(r, m.Params)

	// return shape
	var errStruct *Struct
	for si := range g.p.Structs {
		st := &g.p.Structs[si]
		if st.IsError && st.Pkg == c.Pkg {
			errStruct = st
		}
	}
	switch k := r.Intn(10); {
	case k < 2 && errStruct != nil:
		// sole custom-error result, by value or by pointer
		m.Ret = Pick(r, []string{"customerr", "customerrptr"})
		m.RetType = TypeRef{Kind: "struct", Pkg: errStruct.Pkg, Name: errStruct.Name}
	case k < 3:
		m.Ret = "error"
	default:
		m.Ret = "value"
		var aliasOfAlias []TypeRef
		for _, a := range g.p.Aliases {
			if a.OfName != "" && visibleFrom(c.Pkg, TypeRef{Pkg: a.Pkg}) {
				aliasOfAlias = append(aliasOfAlias, TypeRef{Kind: "alias", Prim: a.Prim, Pkg: a.Pkg, Name: a.Name})
			}
		}
		switch k := r.Intn(5); {
		case len(aliasOfAlias) > 0 && r.Chance(1, 3):
			// an alias declared on top of another alias is only legal in models and results: make it reachable
			m.RetType = Pick(r, aliasOfAlias)
			if r.Chance(1, 2) {
				m.RetType = aliasOfAlias[len(aliasOfAlias)-1] // the latest declared one ends the longest chain
			}
		case k == 0:
			m.RetType = TypeRef{Kind: "prim", Prim: Pick(r, []string{"string", "int", "bool", "float64"})}
			if r.Chance(1, 4) {
				m.RetType.Map = g.profile == "order"
			}
		case k == 1:
			if e, ok := g.pickNamed(c.Pkg, "enum"); ok {
				m.RetType = e
				break
			}
			fallthrough
		default:
			if st, ok := g.pickNamed(c.Pkg, "struct"); ok {
				switch r.Intn(5) {
				case 0:
					st.Ptr = true
				case 1:
					st.Slice = true
				case 2:
					st.Map = g.profile == "order"
				}
				if st.Slice && Stream(g.p.Seed, "projgen/elem-ptr/"+c.Name+"."+m.Name, 0).Chance(1, 2) {
					st.ElemPtr = true // []*T: elements may be nil
				}
				m.RetType = st
			} else {
				m.RetType = TypeRef{Kind: "prim", Prim: "string"}
			}
		}
	}
	if r.Chance(1, 3) {
		if m.Ret == "value" {
			m.RespCode = Pick(r, []int{200, 201, 202})
		} else {
			m.RespCode = Pick(r, []int{204, 202})
		}
	}
	if r.Chance(1, 3) {
		m.ErrCodes = []int{Pick(r, []int{400, 404, 409})}
		if r.Chance(1, 2) {
			m.ErrCodes = append(m.ErrCodes, 500)
		}
	}
	m.Hidden = r.Chance(1, 6)
	m.Deprecated = r.Chance(1, 6)
	if r.Chance(1, 2) {
		m.Desc = fmt.Sprintf("%s does its job", m.Name)
	}
	if r.Chance(1, 3) {
		n := r.Range(1, 3)
		for i := 0; i < n; i++ {
			m.Security = append(m.Security, g.alt())
		}
	}
	return m
}

// fixOverlaps makes routes pairwise non-overlapping per verb (router profile)
// by appending a distinguishing literal segment; the order profile keeps a
// controlled share of overlapping routes (they only produce warnings).
func (g *genState) fixOverlaps() {
	keep := g.profile == "order" && g.r.Chance(1, 4)
	keepSpecific := true // literal route shadowing a parameter route: the common /items/featured + /items/{id} shape (a warning, i.e. diagnostics)
	for iter := 0; iter < 50; iter++ {
		rts := g.p.Routes()
		changed := false
		for i := 0; i < len(rts) && !changed; i++ {
			for j := 0; j < i; j++ {
				// kin-openapi rejects two path items whose templates differ only in parameter names, whatever the verbs
				sameShapeOtherNames := eraseNames(rts[i].Segs) == eraseNames(rts[j].Segs) && rts[i].Path != rts[j].Path
				if sameShapeOtherNames || (rts[i].M.Verb == rts[j].M.Verb && Overlap(rts[i].Segs, rts[j].Segs)) {
					if keep && !sameShapeOtherNames && eraseNames(rts[i].Segs) != eraseNames(rts[j].Segs) {
						continue // literal-vs-parameter overlap: accepted by gleece with a warning
					}
					if keepSpecific && !sameShapeOtherNames && (MoreSpecific(rts[i].Segs, rts[j].Segs) || MoreSpecific(rts[j].Segs, rts[i].Segs)) {
						continue // one template is the other with parameters replaced by literals: dispatch is unambiguous
					}
					m := rts[i].M
					m.Route = strings.TrimRight(m.Route, "/") + fmt.Sprintf("/u%d", iter)
					if !strings.HasPrefix(m.Route, "/") && !(rts[i].Ctrl.HasRoute && strings.HasSuffix(rts[i].Ctrl.Route, "/")) {
						m.Route = "/" + m.Route
					}
					changed = true
					break
				}
			}
		}
		if !changed {
			break
		}
	}
	// method names must be unique project-wide (they become operationIds)
	seen := map[string]int{}
	for ci := range g.p.Controllers {
		for mi := range g.p.Controllers[ci].Methods {
			m := &g.p.Controllers[ci].Methods[mi]
			seen[m.Name]++
			if seen[m.Name] > 1 {
				m.Name = fmt.Sprintf("%sV%d", m.Name, seen[m.Name])
			}
		}
	}
}

func eraseNames(segs []string) string {
	out := make([]string, len(segs))
	for i, s := range segs {
		if IsParamSeg(s) {
			out[i] = "{}"
		} else {
			out[i] = s
		}
	}
	return strings.Join(out, "/")
}

// goIdent turns a wire name into a Go identifier (order-ref -> orderRef, item_id -> itemId).
func goIdent(s string) string {
	var b strings.Builder
	up := false
	for _, c := range s {
		if c == '-' || c == '_' || c == '.' {
			up = true
			continue
		}
		if up {
			b.WriteString(strings.ToUpper(string(c)))
			up = false
		} else {
			b.WriteRune(c)
		}
	}
	return b.String()
}

// wildcardFreedom: in how many of 30 cases a path-parameter name is drawn freely instead of being
// fixed per position+prefix (VERIF_PROJGEN_WILD overrides the default of 1 for harness experiments).
func wildcardFreedom() int {
	if v := os.Getenv("VERIF_PROJGEN_WILD"); v != "" {
		n := 0
		fmt.Sscan(v, &n)
		return n
	}
	return 1
}
