package projgen

import (
	"encoding/json"
	"fmt"
	"os"
	"path/filepath"
	"regexp"
	"sort"
	"strings"
)

// Render writes the project sources (not the gleece config) under dir.
func (p *Project) Render(dir string) error {
	files := p.SourceFiles()
	names := make([]string, 0, len(files))
	for n := range files {
		names = append(names, n)
	}
	sort.Strings(names)
	for _, n := range names {
		full := filepath.Join(dir, n)
		if err := os.MkdirAll(filepath.Dir(full), 0o755); err != nil {
			return err
		}
		if err := os.WriteFile(full, []byte(files[n]), 0o644); err != nil {
			return err
		}
	}
	return nil
}

const goMod = `module simproj

go 1.24.7

require (
	github.com/gopher-fleece/runtime v1.2.1
)
`

const hookSrc = `// Package simhook is the seam through which the simulator owns controller behaviour.
package simhook

import (
	"context"

	"github.com/gopher-fleece/runtime"
)

// Auth is called by the authorization package of every engine with the engine's request object.
var Auth func(ctx context.Context, engineReq any, check runtime.SecurityCheck) (context.Context, *runtime.SecurityError)

func Authorize(ctx context.Context, engineReq any, check runtime.SecurityCheck) (context.Context, *runtime.SecurityError) {
	if Auth == nil {
		return ctx, nil
	}
	return Auth(ctx, engineReq, check)
}

// Invoke is called by every generated controller method.
// op is "Controller.Method"; ret points at the value result (nil when the method only returns error).
var Invoke func(ctl runtime.Controller, op string, ret any, args ...any) error

func Call(ctl runtime.Controller, op string, ret any, args ...any) error {
	if Invoke == nil {
		return nil
	}
	return Invoke(ctl, op, ret, args...)
}
`

// SourceFiles returns relative path -> content.
func (p *Project) SourceFiles() map[string]string {
	out := map[string]string{}
	if p.Mod == "" {
		out["go.mod"] = goMod
	}
	if p.Hook == "" {
		out["simhook/simhook.go"] = hookSrc
	}
	for _, e := range Engines {
		out["auth/"+e+"/auth.go"] = p.authSrc(e)
	}
	for _, x := range p.Extensions {
		out["ext/"+x+".hbs"] = fmt.Sprintf("// sim extension %s of project %d rev %q\n", x, p.Seed, p.ExtRev)
	}
	type fileAcc struct {
		pkg     string
		imports map[string]bool
		body    strings.Builder
	}
	accs := map[string]*fileAcc{}
	get := func(pkg, file string) *fileAcc {
		k := pkg + "/" + file
		if accs[k] == nil {
			accs[k] = &fileAcc{pkg: pkg, imports: map[string]bool{}}
		}
		return accs[k]
	}
	useType := func(a *fileAcc, t TypeRef) {
		if t.Kind == "time" {
			a.imports["time"] = true
		}
		if t.Pkg != "" && t.Pkg != a.pkg {
			a.imports[p.ModPath()+"/"+t.Pkg] = true
		}
	}

	for _, e := range p.Enums {
		a := get(e.Pkg, e.File)
		fmt.Fprintf(&a.body, "type %s %s\n\nconst (\n", e.Name, e.Prim)
		half := len(e.Values)
		if e.SplitFile != "" && e.SplitFile != e.File {
			half = (len(e.Values) + 1) / 2
		}
		for i, v := range e.Values[:half] {
			fmt.Fprintf(&a.body, "\t%sV%d %s = %s\n", e.Name, i, e.Name, v)
		}
		if e.AliasConst {
			// a constant that repeats the value of the first one
			fmt.Fprintf(&a.body, "\t%sDefault %s = %sV0\n", e.Name, e.Name, e.Name)
		}
		a.body.WriteString(")\n\n")
		if half < len(e.Values) {
			// the remaining constants of the same enum type live in another file of the package
			b := get(e.Pkg, e.SplitFile)
			b.body.WriteString("const (\n")
			for i, v := range e.Values[half:] {
				fmt.Fprintf(&b.body, "\t%sV%d %s = %s\n", e.Name, half+i, e.Name, v)
			}
			b.body.WriteString(")\n\n")
		}
	}
	for _, al := range p.Aliases {
		a := get(al.Pkg, al.File)
		under := al.Prim
		if al.OfName != "" {
			t := TypeRef{Kind: "alias", Pkg: al.OfPkg, Name: al.OfName}
			useType(a, t)
			under = t.GoString(al.Pkg)
		}
		if al.Assigned {
			fmt.Fprintf(&a.body, "type %s = %s\n\n", al.Name, under)
		} else {
			fmt.Fprintf(&a.body, "type %s %s\n\n", al.Name, under)
		}
	}
	for _, s := range p.Structs {
		a := get(s.Pkg, s.File)
		if s.Desc != "" {
			fmt.Fprintf(&a.body, "// %s\n", s.Desc)
		}
		fmt.Fprintf(&a.body, "type %s struct {\n", s.Name)
		if s.IsError {
			a.body.WriteString("\terror\n")
		}
		for _, f := range s.Fields {
			useType(a, f.Type)
			tag := fmt.Sprintf("json:%q", f.JSON)
			if f.Validate != "" {
				tag += fmt.Sprintf(" validate:%q", f.Validate)
			}
			if f.Embedded {
				fmt.Fprintf(&a.body, "\t%s\n", f.Type.GoString(s.Pkg))
				continue
			}
			fmt.Fprintf(&a.body, "\t%s %s `%s`\n", f.GoName, f.Type.GoString(s.Pkg), tag)
		}
		a.body.WriteString("}\n\n")
	}
	for ci := range p.Controllers {
		c := &p.Controllers[ci]
		a := get(c.Pkg, c.File)
		a.imports["github.com/gopher-fleece/runtime"] = true
		// the controller's doc comment; with Grouped the declaration sits in a "type ( ... )" block that has a
		// doc comment of its own, and the annotations are on the spec inside the block
		var doc strings.Builder
		if c.Desc != "" {
			fmt.Fprintf(&doc, "// @Description %s\n", c.Desc)
		}
		if c.Tag != "" {
			fmt.Fprintf(&doc, "// @Tag(%s)\n", c.Tag)
		}
		if c.HasRoute {
			fmt.Fprintf(&doc, "// @Route(%s)\n", c.Route)
		}
		for _, s := range c.Security {
			doc.WriteString(securityLine(s))
		}
		if c.Grouped {
			fmt.Fprintf(&a.body, "// The types of %s.\ntype (\n", c.Name)
			for _, l := range strings.Split(strings.TrimSuffix(doc.String(), "\n"), "\n") {
				if l != "" {
					a.body.WriteString("\t" + l + "\n")
				}
			}
			fmt.Fprintf(&a.body, "\t%s struct {\n\t\truntime.GleeceController\n\t}\n)\n\n", c.Name)
		} else {
			a.body.WriteString(doc.String())
			fmt.Fprintf(&a.body, "type %s struct {\n\truntime.GleeceController\n}\n\n", c.Name)
		}
		for mi := range c.Methods {
			m := &c.Methods[mi]
			ma := get(c.Pkg, m.File)
			ma.imports[p.HookPath()] = true
			p.renderMethod(ma.imports, &ma.body, c, m, func(t TypeRef) { useType(ma, t) })
		}
	}
	keys := make([]string, 0, len(accs))
	for k := range accs {
		keys = append(keys, k)
	}
	sort.Strings(keys)
	for _, k := range keys {
		a := accs[k]
		var b strings.Builder
		fmt.Fprintf(&b, "package %s\n\n", PkgName(a.pkg))
		body := a.body.String()
		if len(a.imports) > 0 {
			imps := make([]string, 0, len(a.imports))
			for i := range a.imports {
				imps = append(imps, i)
			}
			sort.Strings(imps)
			var lines []string
			lines, body = p.importStyles(k, a.pkg, imps, body)
			b.WriteString("import (\n")
			for _, l := range lines {
				fmt.Fprintf(&b, "\t%s\n", l)
			}
			b.WriteString(")\n\n")
		}
		b.WriteString(body)
		out[k] = b.String()
	}
	return out
}

// declaredNames lists the package-level type names a package declares.
func (p *Project) declaredNames(pkg string) map[string]bool {
	n := map[string]bool{}
	for _, s := range p.Structs {
		if s.Pkg == pkg {
			n[s.Name] = true
		}
	}
	for _, e := range p.Enums {
		if e.Pkg == pkg {
			n[e.Name] = true
		}
	}
	for _, al := range p.Aliases {
		if al.Pkg == pkg {
			n[al.Name] = true
		}
	}
	for _, c := range p.Controllers {
		if c.Pkg == pkg {
			n[c.Name] = true
		}
	}
	return n
}

// importStyles decides, per source file, how each imported PROJECT package is imported: plainly, under a
// custom name, or with a dot (at most one per file, and only when no declared type name would collide).
// It returns the import lines and the body with its qualifiers rewritten.
func (p *Project) importStyles(fileKey, pkg string, imps []string, body string) ([]string, string) {
	lines := make([]string, 0, len(imps))
	own := p.declaredNames(pkg)
	dotted := map[string]bool{}
	haveDot := false
	for _, imp := range imps {
		rel := strings.TrimPrefix(imp, p.ModPath()+"/")
		if !p.ImportStyles || rel == imp || !isMdl(rel) {
			lines = append(lines, fmt.Sprintf("%q", imp))
			continue
		}
		r := Stream(p.Seed, "projgen/import-style/"+fileKey+"|"+rel, 0)
		style := Pick(r, []string{"plain", "alias", "alias", "dot"})
		name := PkgName(rel)
		qual := regexp.MustCompile(`\b` + regexp.QuoteMeta(name) + `\.([A-Z])`)
		if style == "dot" {
			ok := !haveDot
			for n := range p.declaredNames(rel) {
				if own[n] || dotted[n] {
					ok = false
				}
			}
			if !ok {
				style = "alias"
			}
		}
		switch style {
		case "alias":
			lines = append(lines, fmt.Sprintf("im_%s %q", name, imp))
			body = qual.ReplaceAllString(body, "im_"+name+".$1")
		case "dot":
			haveDot = true
			for n := range p.declaredNames(rel) {
				dotted[n] = true
			}
			lines = append(lines, fmt.Sprintf(". %q", imp))
			body = qual.ReplaceAllString(body, "$1")
		default:
			lines = append(lines, fmt.Sprintf("%q", imp))
		}
	}
	return lines, body
}

func securityLine(s Alt) string {
	if s.Bare && len(s.Scopes) == 0 {
		return fmt.Sprintf("// @Security(%s)\n", s.Scheme)
	}
	return fmt.Sprintf("// @Security(%s, { scopes: %s })\n", s.Scheme, jsonList(s.Scopes))
}

func jsonList(xs []string) string {
	if xs == nil {
		xs = []string{}
	}
	b, _ := json.Marshal(xs)
	return string(b)
}

func locAnnotation(loc string) string {
	switch loc {
	case "path":
		return "Path"
	case "query":
		return "Query"
	case "header":
		return "Header"
	case "form":
		return "FormField"
	case "body":
		return "Body"
	}
	return ""
}

func (p *Project) renderMethod(imports map[string]bool, b *strings.Builder, c *Controller, m *Method, use func(TypeRef)) {
	if m.Desc != "" {
		fmt.Fprintf(b, "// @Description %s\n", m.Desc)
	}
	fmt.Fprintf(b, "// @Method(%s)\n", m.Verb)
	fmt.Fprintf(b, "// @Route(%s)\n", m.Route)
	for _, prm := range m.Params {
		if prm.Loc == "context" {
			continue
		}
		var props []string
		if prm.Wire != "" {
			props = append(props, fmt.Sprintf("name: %q", prm.Wire))
		}
		if prm.Validate != "" {
			props = append(props, fmt.Sprintf("validate: %q", prm.Validate))
		}
		if len(props) > 0 {
			fmt.Fprintf(b, "// @%s(%s, { %s })\n", locAnnotation(prm.Loc), prm.GoName, strings.Join(props, ", "))
		} else {
			fmt.Fprintf(b, "// @%s(%s)\n", locAnnotation(prm.Loc), prm.GoName)
		}
	}
	if m.RespCode != 0 {
		fmt.Fprintf(b, "// @Response(%d) the result\n", m.RespCode)
	}
	for _, ec := range m.ErrCodes {
		fmt.Fprintf(b, "// @ErrorResponse(%d) failure %d\n", ec, ec)
	}
	for _, s := range m.Security {
		b.WriteString(securityLine(s))
	}
	if m.Hidden {
		b.WriteString("// @Hidden\n")
	}
	if m.Deprecated {
		b.WriteString("// @Deprecated no longer maintained\n")
	}
	var sig, args []string
	for _, prm := range m.Params {
		if prm.Loc == "context" {
			imports["context"] = true
			sig = append(sig, prm.GoName+" context.Context")
		} else {
			use(prm.Type)
			sig = append(sig, prm.GoName+" "+prm.Type.GoString(c.Pkg))
		}
		args = append(args, prm.GoName)
	}
	op := p.OpPrefix + c.Name + "." + m.Name
	argList := ""
	if len(args) > 0 {
		argList = ", " + strings.Join(args, ", ")
	}
	switch m.Ret {
	case "error":
		fmt.Fprintf(b, "func (c *%s) %s(%s) error {\n\treturn simhook.Call(c, %q, nil%s)\n}\n\n", c.Name, m.Name, strings.Join(sig, ", "), op, argList)
	case "customerr", "customerrptr":
		use(m.RetType)
		et := m.RetType.GoString(c.Pkg)
		if m.Ret == "customerrptr" {
			fmt.Fprintf(b, "func (c *%s) %s(%s) *%s {\n\tif err := simhook.Call(c, %q, nil%s); err != nil {\n\t\treturn &%s{Message: err.Error(), Code: 7}\n\t}\n\treturn nil\n}\n\n", c.Name, m.Name, strings.Join(sig, ", "), et, op, argList, et)
		} else {
			fmt.Fprintf(b, "func (c *%s) %s(%s) %s {\n\tvar ret %s\n\tif err := simhook.Call(c, %q, nil%s); err != nil {\n\t\tret = %s{Message: err.Error(), Code: 7}\n\t}\n\treturn ret\n}\n\n", c.Name, m.Name, strings.Join(sig, ", "), et, et, op, argList, et)
		}
	case "value":
		use(m.RetType)
		rt := m.RetType.GoString(c.Pkg)
		fmt.Fprintf(b, "func (c *%s) %s(%s) (%s, error) {\n\tvar ret %s\n\terr := simhook.Call(c, %q, &ret%s)\n\treturn ret, err\n}\n\n", c.Name, m.Name, strings.Join(sig, ", "), rt, rt, op, argList)
	}
}

// ConfigOpts selects the per-run parts of the gleece configuration.
type ConfigOpts struct {
	Engine      string
	RoutesOut   string // absolute
	SpecOut     string // absolute
	SkipDate    bool
	PackageName string
}

// Config renders the gleece configuration document.
func (p *Project) Config(o ConfigOpts) string {
	type m = map[string]any
	var schemes []m
	for i, s := range p.Schemes {
		switch i % 3 {
		case 0:
			schemes = append(schemes, m{"description": "key " + s, "name": s, "fieldName": "x-" + s, "type": "apiKey", "in": "header"})
		case 1:
			schemes = append(schemes, m{"description": "bearer " + s, "name": s, "scheme": "bearer", "type": "http"})
		default:
			// oauth2 with several flows and several scopes each (scope maps are walked by the 3.1 emitter)
			scopes := m{"read": "read things", "write": "write things", "admin": "administer", "other": "anything else"}
			schemes = append(schemes, m{"description": "oauth " + s, "name": s, "type": "oauth2", "flows": m{
				"implicit":          m{"authorizationUrl": "https://auth.example.com/authorize", "scopes": scopes},
				"password":          m{"tokenUrl": "https://auth.example.com/token", "scopes": scopes},
				"clientCredentials": m{"tokenUrl": "https://auth.example.com/token", "scopes": scopes},
				"authorizationCode": m{"authorizationUrl": "https://auth.example.com/authorize", "tokenUrl": "https://auth.example.com/token", "scopes": scopes},
			}})
		}
	}
	oa := m{
		"openapi": p.OpenAPI,
		"info": m{
			"title":       "Sim API",
			"description": "generated by projgen",
			"version":     "1.0.0",
			"license":     m{"name": "MIT"},
		},
		"baseUrl":             "https://api.example.com",
		"securitySchemes":     schemes,
		"specGeneratorConfig": m{"outputPath": o.SpecOut},
	}
	if p.Default != nil {
		sc := p.Default.Scopes
		if sc == nil {
			sc = []string{}
		}
		oa["defaultSecurity"] = m{"name": p.Default.Scheme, "scopes": sc}
	}
	rc := m{
		"engine":          o.Engine,
		"outputPath":      o.RoutesOut,
		"outputFilePerms": "0644",
		"authorizationConfig": m{
			"authFileFullPackageName":    p.ModPath() + "/auth/" + o.Engine,
			"enforceSecurityOnAllRoutes": p.Enforce,
		},
		"validateResponsePayload": p.ValidateRsp,
		"skipGenerateDateComment": o.SkipDate,
	}
	if o.PackageName != "" {
		rc["packageName"] = o.PackageName
	}
	if len(p.Extensions) > 0 {
		ext := m{}
		for _, x := range p.Extensions {
			ext[x] = "./ext/" + x + ".hbs"
		}
		rc["templateExtensions"] = ext
	}
	cfg := m{
		"commonConfig":           m{"controllerGlobs": p.Globs},
		"routesConfig":           rc,
		"openapiGeneratorConfig": oa,
		"experimentalConfig":     m{"validateTopLevelOnlyEnum": p.ExpTopEnum, "generateEnumValidator": p.ExpEnumVal},
	}
	b, _ := json.MarshalIndent(cfg, "", "  ")
	return string(b)
}

// HookSource is the source of the shared simhook package.
func HookSource() string { return hookSrc }

func (p *Project) authSrc(engine string) string {
	imp, typ := "", ""
	switch engine {
	case "gin":
		imp, typ = `"github.com/gin-gonic/gin"`, "*gin.Context"
	case "echo":
		imp, typ = `"github.com/labstack/echo/v4"`, "echo.Context"
	case "fiber":
		imp, typ = `"github.com/gofiber/fiber/v2"`, "*fiber.Ctx"
	default:
		imp, typ = `"net/http"`, "*http.Request"
	}
	return fmt.Sprintf(`package auth

import (
	"context"

	%s
	"github.com/gopher-fleece/runtime"
	simhook %q
)

func GleeceRequestAuthorization(ctx context.Context, req %s, check runtime.SecurityCheck) (context.Context, *runtime.SecurityError) {
	return simhook.Authorize(ctx, req, check)
}
`, imp, p.HookPath(), typ)
}
