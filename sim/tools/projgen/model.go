// Package projgen draws abstract gleece projects from a seed, renders them to
// source text and configuration, and derives the ground truth the oracles use.
// Oracles never read gleece's own metadata (DESIGN.md R3).
package projgen

import (
	"fmt"
	"sort"
	"strings"
)

const Module = "simproj"

var Engines = []string{"gin", "echo", "mux", "chi", "fiber"}

type TypeRef struct {
	Kind  string `json:"kind"`            // prim | enum | alias | struct
	Prim  string `json:"prim,omitempty"`  // go primitive (for enum/alias: the underlying one)
	Pkg   string `json:"pkg,omitempty"`   // package (directory) name of a named type
	Name  string `json:"name,omitempty"`  // type name
	Slice bool   `json:"slice,omitempty"` // []T
	// ElemPtr: with Slice, the elements are pointers ([]*T; results only)
	ElemPtr bool `json:"elem_ptr,omitempty"`
	Map     bool `json:"map,omitempty"` // map[string]T (bodies and results only; never together with Slice or Ptr)
	Ptr     bool `json:"ptr,omitempty"` // *T (outermost)
}

type Param struct {
	GoName   string  `json:"go"`
	Wire     string  `json:"wire,omitempty"` // alias; "" = GoName
	Loc      string  `json:"loc"`            // path | query | header | form | body | context
	Type     TypeRef `json:"type"`
	Validate string  `json:"validate,omitempty"`
}

func (p Param) WireName() string {
	if p.Wire != "" {
		return p.Wire
	}
	return p.GoName
}

type Alt struct {
	Scheme string   `json:"scheme"`
	Scopes []string `json:"scopes"`
	// Bare: written as "@Security(scheme)" without a properties object (only with empty scopes)
	Bare bool `json:"bare,omitempty"`
}

type Method struct {
	Name       string  `json:"name"`
	File       string  `json:"file"`
	Verb       string  `json:"verb"`
	Route      string  `json:"route"` // raw annotation text
	Hidden     bool    `json:"hidden,omitempty"`
	Deprecated bool    `json:"deprecated,omitempty"`
	Desc       string  `json:"desc,omitempty"`
	Security   []Alt   `json:"security,omitempty"`
	Params     []Param `json:"params,omitempty"`
	Ret        string  `json:"ret"` // error | value | customerr | customerrptr
	RetType    TypeRef `json:"ret_type,omitempty"`
	RespCode   int     `json:"resp_code,omitempty"`
	ErrCodes   []int   `json:"err_codes,omitempty"`
}

type Controller struct {
	Name     string   `json:"name"`
	Pkg      string   `json:"pkg"`
	File     string   `json:"file"`
	Route    string   `json:"route"`
	HasRoute bool     `json:"has_route"`
	Tag      string   `json:"tag,omitempty"`
	Desc     string   `json:"desc,omitempty"`
	Security []Alt    `json:"security,omitempty"`
	Methods  []Method `json:"methods"`
	// Grouped: declared inside a "type ( ... )" block that carries a doc comment of its own
	Grouped bool `json:"grouped,omitempty"`
}

type Field struct {
	GoName   string  `json:"go"`
	JSON     string  `json:"json"`
	Type     TypeRef `json:"type"` // Kind "time": time.Time (struct fields only)
	Validate string  `json:"validate,omitempty"`
	// Embedded: an anonymous field of struct type; its fields are promoted (and flattened in JSON)
	Embedded bool `json:"embedded,omitempty"`
}

type Struct struct {
	Name    string  `json:"name"`
	Pkg     string  `json:"pkg"`
	File    string  `json:"file"`
	Fields  []Field `json:"fields"`
	IsError bool    `json:"is_error,omitempty"` // embeds `error`
	Desc    string  `json:"desc,omitempty"`
	// EmbedDepth: 0 = embeds nothing, n = embeds a struct of depth n-1 (own fields are then named G.., H..)
	EmbedDepth int `json:"embed_depth,omitempty"`
}

type Enum struct {
	// AliasConst: one more constant repeats the value of the first (order profile only)
	AliasConst bool     `json:"alias_const,omitempty"`
	Name       string   `json:"name"`
	Pkg        string   `json:"pkg"`
	File       string   `json:"file"`
	Prim       string   `json:"prim"`
	Values     []string `json:"values"` // Go literal text
	// SplitFile: if set, the second half of the constants is declared in this other file of the package
	SplitFile string `json:"split_file,omitempty"`
}

type Alias struct {
	Name     string `json:"name"`
	Pkg      string `json:"pkg"`
	File     string `json:"file"`
	Prim     string `json:"prim"`
	Assigned bool   `json:"assigned,omitempty"` // type X = prim
	// Of: the alias is declared on top of ANOTHER alias (type AccountId BaseId); Prim stays the final primitive
	OfPkg  string `json:"of_pkg,omitempty"`
	OfName string `json:"of_name,omitempty"`
}

type Project struct {
	// Mod is the import-path prefix of the project's packages ("" = "simproj"); Hook the import
	// path of the simhook package; OpPrefix is prepended to "Controller.Method" in hook calls.
	Mod         string       `json:"mod,omitempty"`
	Hook        string       `json:"hook,omitempty"`
	OpPrefix    string       `json:"op_prefix,omitempty"`
	Seed        uint64       `json:"seed"`
	Profile     string       `json:"profile"`
	Schemes     []string     `json:"schemes"`
	Default     *Alt         `json:"default_security,omitempty"`
	Enforce     bool         `json:"enforce,omitempty"`
	OpenAPI     string       `json:"openapi"`
	ValidateRsp bool         `json:"validate_response,omitempty"`
	ExpTopEnum  bool         `json:"exp_top_enum,omitempty"`
	ExpEnumVal  bool         `json:"exp_enum_validator,omitempty"`
	Controllers []Controller `json:"controllers"`
	Structs     []Struct     `json:"structs,omitempty"`
	Enums       []Enum       `json:"enums,omitempty"`
	Aliases     []Alias      `json:"aliases,omitempty"`
	// ControllerGlobs as written in the config (relative to the project root)
	Globs []string `json:"globs"`
	// ImportStyles: source files import model packages plainly, under a custom name or with a dot (per file)
	ImportStyles bool `json:"import_styles,omitempty"`
	// PartialGlobs: the globs select only some files of a controller package
	PartialGlobs bool `json:"partial_globs,omitempty"`
	// Extensions: names of routes-template extension hooks the configuration fills with a comment line
	Extensions []string `json:"extensions,omitempty"`
	// ExtRev is written into the extension files' content (same relative paths, other content)
	ExtRev string `json:"ext_rev,omitempty"`
}

// ---------------------------------------------------------------- ground truth

// NormPath is the reference normalisation of controller route + method route:
// plain concatenation (what the statement of C01 calls "concatenation"), then
// one leading slash and collapsed repeated slashes. A trailing slash is kept:
// it is part of the documented and served path.
func NormPath(ctrlRoute, methodRoute string) string {
	p := ctrlRoute + methodRoute
	if !strings.HasPrefix(p, "/") {
		p = "/" + p
	}
	for strings.Contains(p, "//") {
		p = strings.ReplaceAll(p, "//", "/")
	}
	return p
}

// Segments splits a normalised path; a trailing slash yields a final empty segment.
func Segments(norm string) []string {
	if norm == "/" {
		return nil
	}
	return strings.Split(strings.TrimPrefix(norm, "/"), "/")
}

func IsParamSeg(s string) bool { return strings.HasPrefix(s, "{") && strings.HasSuffix(s, "}") }

// Route is one annotated route with its ground truth.
type Route struct {
	Ctrl     *Controller
	M        *Method
	Path     string   // normalised template
	Segs     []string // segments of Path
	Security []Alt    // effective alternatives
	OpID     string   // Controller.Method (unique within the project)
}

func (p *Project) Routes() []Route {
	var out []Route
	for ci := range p.Controllers {
		c := &p.Controllers[ci]
		for mi := range c.Methods {
			m := &c.Methods[mi]
			path := NormPath(c.Route, m.Route)
			var sec []Alt
			switch {
			case len(m.Security) > 0:
				sec = m.Security
			case len(c.Security) > 0:
				sec = c.Security
			case p.Default != nil:
				sec = []Alt{*p.Default}
			}
			out = append(out, Route{Ctrl: c, M: m, Path: path, Segs: Segments(path), Security: sec, OpID: c.Name + "." + m.Name})
		}
	}
	return out
}

// Overlap says whether two normalised templates can match one concrete path.
func Overlap(a, b []string) bool {
	if len(a) != len(b) {
		return false
	}
	for i := range a {
		if a[i] == b[i] || IsParamSeg(a[i]) || IsParamSeg(b[i]) {
			continue
		}
		return false
	}
	return true
}

// MoreSpecific: a and b overlap, differ somewhere, and wherever they differ a has the literal and b the parameter.
func MoreSpecific(a, b []string) bool {
	if !Overlap(a, b) {
		return false
	}
	diff := false
	for i := range a {
		if a[i] == b[i] {
			continue
		}
		if IsParamSeg(a[i]) && IsParamSeg(b[i]) {
			continue // both parameters (names may differ)
		}
		if IsParamSeg(a[i]) {
			return false
		}
		diff = true
	}
	return diff
}

// RegOrderKey orders routes the way a generator that keeps declaration order registers them:
// controllers by name, then files by name, then source order.
func (p *Project) RegOrderKey(rt Route) string {
	idx := 0
	for i := range rt.Ctrl.Methods {
		if &rt.Ctrl.Methods[i] == rt.M {
			idx = i
		}
	}
	return fmt.Sprintf("%s|%s|%04d", rt.Ctrl.Name, rt.M.File, idx)
}

// Packages lists the package (directory) names with their files, sorted.
func (p *Project) Packages() map[string][]string {
	m := map[string]map[string]bool{}
	add := func(pkg, file string) {
		if m[pkg] == nil {
			m[pkg] = map[string]bool{}
		}
		m[pkg][file] = true
	}
	for _, c := range p.Controllers {
		add(c.Pkg, c.File)
		for _, mm := range c.Methods {
			add(c.Pkg, mm.File)
		}
	}
	for _, s := range p.Structs {
		add(s.Pkg, s.File)
	}
	for _, e := range p.Enums {
		add(e.Pkg, e.File)
		if e.SplitFile != "" {
			add(e.Pkg, e.SplitFile)
		}
	}
	for _, a := range p.Aliases {
		add(a.Pkg, a.File)
	}
	out := map[string][]string{}
	for k, fs := range m {
		for f := range fs {
			out[k] = append(out[k], f)
		}
		sort.Strings(out[k])
	}
	return out
}

func (t TypeRef) GoString(fromPkg string) string {
	s := ""
	if t.Ptr {
		s += "*"
	}
	if t.Slice {
		s += "[]"
		if t.ElemPtr {
			s += "*"
		}
	}
	if t.Map {
		s += "map[string]"
	}
	switch t.Kind {
	case "prim":
		return s + t.Prim
	case "time":
		return s + "time.Time"
	default:
		if t.Pkg != "" && t.Pkg != fromPkg {
			return s + PkgName(t.Pkg) + "." + t.Name
		}
		return s + t.Name
	}
}

func (p *Project) ModPath() string {
	if p.Mod != "" {
		return p.Mod
	}
	return Module
}

func (p *Project) HookPath() string {
	if p.Hook != "" {
		return p.Hook
	}
	return p.ModPath() + "/simhook"
}

func (p *Project) String() string {
	return fmt.Sprintf("project(seed=%d,%s,%d ctl)", p.Seed, p.Profile, len(p.Controllers))
}

// PkgName is the Go package name of a package given by its directory (relative to the module root).
func PkgName(pkg string) string {
	if i := strings.LastIndex(pkg, "/"); i >= 0 {
		return pkg[i+1:]
	}
	return pkg
}

// isMdl: model packages carry "mdl" in their directory's base name (they never declare controllers).
func isMdl(pkg string) bool { return strings.Contains(PkgName(pkg), "mdl") }
