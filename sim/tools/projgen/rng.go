package projgen

// Rand is a tiny splitmix64 stream. Streams are derived by name so that adding
// a draw for one purpose never shifts the draws of another.
type Rand struct{ s uint64 }

func hashStr(h uint64, s string) uint64 {
	for i := 0; i < len(s); i++ {
		h ^= uint64(s[i])
		h *= 1099511628211
	}
	return h
}

func Stream(seed uint64, purpose string, index uint64) *Rand {
	h := hashStr(14695981039346656037^seed*0x9e3779b97f4a7c15, purpose)
	h ^= index * 0xbf58476d1ce4e5b9
	r := &Rand{s: h}
	r.U64()
	return r
}

func (r *Rand) U64() uint64 {
	r.s += 0x9e3779b97f4a7c15
	z := r.s
	z = (z ^ (z >> 30)) * 0xbf58476d1ce4e5b9
	z = (z ^ (z >> 27)) * 0x94d049bb133111eb
	return z ^ (z >> 31)
}

func (r *Rand) Intn(n int) int {
	if n <= 0 {
		return 0
	}
	return int(r.U64() % uint64(n))
}

// Range returns a value in [lo, hi].
func (r *Rand) Range(lo, hi int) int { return lo + r.Intn(hi-lo+1) }

func (r *Rand) Chance(num, den int) bool { return r.Intn(den) < num }

func Pick[T any](r *Rand, xs []T) T { return xs[r.Intn(len(xs))] }

func Shuffle[T any](r *Rand, xs []T) {
	for i := len(xs) - 1; i > 0; i-- {
		j := r.Intn(i + 1)
		xs[i], xs[j] = xs[j], xs[i]
	}
}
