// Package verifsim is the seeded iteration-order / clock runtime that the
// instrumenter (sim/cmd/instrument) links into a SCRATCH COPY of gleece.
// It is never part of /repo.
//
// Every order choice is a pure function
//
//	perm = H(orderSeed, site, [ordinal-at-site], normalised canonical key list)
//
// so logging, caching or extra iterations elsewhere never perturb a later
// choice, and a replay is a function of (order spec, code) only.
package verifsim

import (
	"bufio"
	"fmt"
	"go/ast"
	"go/parser"
	"go/token"
	"iter"
	"os"
	"sort"
	"strconv"
	"strings"
	"sync"
	"time"

	"golang.org/x/tools/go/packages"
)

// Spec is one order schedule.
type Spec struct {
	Seed    uint64
	PerCall bool            // include the per-site call ordinal in the hash
	All     bool            // every site enabled
	Sites   map[string]bool // enabled sites when !All
}

var (
	mu       sync.Mutex
	spec     *Spec // nil = canonical everywhere
	ordinals = map[string]uint64{}
	traceW   *bufio.Writer
	traceF   *os.File
	memTrace []Decision
	keepMem  bool
	now      time.Time
	haveNow  bool
	norm     [][2]string
)

// Decision is one logged order decision.
type Decision struct {
	Site     string
	Ordinal  uint64
	N        int
	KeyHash  uint64
	PermHash uint64
	Permuted bool
}

func init() {
	if v := os.Getenv("VERIF_ORDER"); v != "" {
		s, err := ParseSpec(v)
		if err != nil {
			fmt.Fprintln(os.Stderr, "verifsim: bad VERIF_ORDER:", err)
			os.Exit(2)
		}
		spec = s
	}
	if v := os.Getenv("VERIF_NOW"); v != "" {
		t, err := time.Parse(time.RFC3339, v)
		if err != nil {
			fmt.Fprintln(os.Stderr, "verifsim: bad VERIF_NOW:", err)
			os.Exit(2)
		}
		now, haveNow = t, true
	}
	if v := os.Getenv("VERIF_TRACE_OUT"); v != "" {
		f, err := os.OpenFile(v, os.O_CREATE|os.O_WRONLY|os.O_APPEND, 0o644)
		if err != nil {
			fmt.Fprintln(os.Stderr, "verifsim: cannot open trace:", err)
			os.Exit(2)
		}
		traceF = f
		traceW = bufio.NewWriter(f)
	}
	SetNorm(os.Getenv("VERIF_NORM"))
}

// SetNorm sets the path normalisation table: "from=to;from=to".
func SetNorm(v string) {
	mu.Lock()
	defer mu.Unlock()
	norm = nil
	for _, kv := range strings.Split(v, ";") {
		if i := strings.IndexByte(kv, '='); i > 0 {
			norm = append(norm, [2]string{kv[:i], kv[i+1:]})
		}
	}
	// longest prefix first
	sort.SliceStable(norm, func(i, j int) bool { return len(norm[i][0]) > len(norm[j][0]) })
}

// ParseSpec parses "seed:mode:sites" where mode is stable|percall and sites is
// "*", "-" (none) or a comma separated list.
func ParseSpec(v string) (*Spec, error) {
	parts := strings.SplitN(v, ":", 3)
	if len(parts) != 3 {
		return nil, fmt.Errorf("want seed:mode:sites, got %q", v)
	}
	seed, err := strconv.ParseUint(parts[0], 10, 64)
	if err != nil {
		return nil, err
	}
	s := &Spec{Seed: seed, Sites: map[string]bool{}}
	switch parts[1] {
	case "stable":
	case "percall":
		s.PerCall = true
	default:
		return nil, fmt.Errorf("bad mode %q", parts[1])
	}
	switch parts[2] {
	case "*":
		s.All = true
	case "-", "":
	default:
		for _, x := range strings.Split(parts[2], ",") {
			s.Sites[x] = true
		}
	}
	return s, nil
}

// Configure installs a schedule (nil = canonical) and resets call ordinals.
func Configure(s *Spec) {
	mu.Lock()
	defer mu.Unlock()
	spec = s
	ordinals = map[string]uint64{}
}

// ResetOrdinals forgets the per-site call counters (start of a new simulated run).
func ResetOrdinals() {
	mu.Lock()
	defer mu.Unlock()
	ordinals = map[string]uint64{}
}

// KeepTrace makes the runtime keep decisions in memory; TakeTrace returns and clears them.
func KeepTrace(on bool) {
	mu.Lock()
	defer mu.Unlock()
	keepMem = on
	memTrace = nil
}

func TakeTrace() []Decision {
	mu.Lock()
	defer mu.Unlock()
	t := memTrace
	memTrace = nil
	return t
}

// SetNow sets the simulated wall clock.
func SetNow(t time.Time) {
	mu.Lock()
	defer mu.Unlock()
	now, haveNow = t, true
}

// Now is the only clock instrumented gleece code reads.
func Now() time.Time {
	mu.Lock()
	defer mu.Unlock()
	if haveNow {
		return now
	}
	// No simulated time configured: a fixed epoch, so that an unconfigured
	// instrumented binary is still deterministic.
	return time.Date(2001, 2, 3, 4, 5, 6, 0, time.UTC)
}

// Flush writes buffered trace output.
func Flush() {
	mu.Lock()
	defer mu.Unlock()
	if traceW != nil {
		traceW.Flush()
	}
}

// normalise makes a key text independent of where and when the project was
// materialised and of the order in which files entered the FileSet.
func normalise(s string) string {
	for _, kv := range norm {
		if strings.Contains(s, kv[0]) {
			s = strings.ReplaceAll(s, kv[0], kv[1])
		}
	}
	// "Position:<digits>" (a token.Pos field printed by %#v): positions depend on the order in which
	// go/packages' parser goroutines added files to the shared FileSet
	for {
		i := strings.Index(s, "Position:")
		if i < 0 {
			break
		}
		j := i + len("Position:")
		k := j
		for k < len(s) && s[k] >= '0' && s[k] <= '9' {
			k++
		}
		if k == j {
			break
		}
		s = s[:i] + "Pos#" + s[k:]
	}
	if !strings.ContainsAny(s, "|@") {
		return s
	}
	// "|<digits>|" -> "|0|"   (mtime inside a file id)
	// "@<digits>@" -> "@#@"   (token.Pos inside a symbol id)
	var b strings.Builder
	b.Grow(len(s))
	i := 0
	for i < len(s) {
		c := s[i]
		if c == '|' || c == '@' {
			j := i + 1
			for j < len(s) && s[j] >= '0' && s[j] <= '9' {
				j++
			}
			if j > i+1 && j < len(s) && s[j] == c {
				b.WriteByte(c)
				if c == '|' {
					b.WriteByte('0')
				} else {
					b.WriteByte('#')
				}
				i = j // the closing delimiter is handled by the next round (it may open another field)
				continue
			}
		}
		b.WriteByte(c)
		i++
	}
	return b.String()
}

type keyed struct {
	norm string
	raw  string
	idx  int
}

func splitmix(x *uint64) uint64 {
	*x += 0x9e3779b97f4a7c15
	z := *x
	z = (z ^ (z >> 30)) * 0xbf58476d1ce4e5b9
	z = (z ^ (z >> 27)) * 0x94d049bb133111eb
	return z ^ (z >> 31)
}

func fnv(h uint64, s string) uint64 {
	for i := 0; i < len(s); i++ {
		h ^= uint64(s[i])
		h *= 1099511628211
	}
	h ^= 0xff
	h *= 1099511628211
	return h
}

// order returns the visiting order (indices into raw) for one iteration at site.
func order(site string, raw []string) []int {
	ks := make([]keyed, len(raw))
	for i, r := range raw {
		ks[i] = keyed{norm: normalise(r), raw: r, idx: i}
	}
	sort.Slice(ks, func(a, b int) bool {
		if ks[a].norm != ks[b].norm {
			return ks[a].norm < ks[b].norm
		}
		if len(ks[a].raw) != len(ks[b].raw) {
			return len(ks[a].raw) < len(ks[b].raw)
		}
		return ks[a].raw < ks[b].raw
	})
	out := make([]int, len(ks))
	for i := range ks {
		out[i] = ks[i].idx
	}

	mu.Lock()
	defer mu.Unlock()
	ord := ordinals[site]
	ordinals[site] = ord + 1

	enabled := spec != nil && (spec.All || spec.Sites[site])
	var keyHash uint64 = 14695981039346656037
	for i := range ks {
		keyHash = fnv(keyHash, ks[i].norm)
	}
	permuted := false
	if enabled && len(out) > 1 {
		h := fnv(14695981039346656037, site)
		h ^= spec.Seed * 0x9e3779b97f4a7c15
		if spec.PerCall {
			h = fnv(h, strconv.FormatUint(ord, 10))
		}
		h ^= keyHash
		st := h
		for i := len(out) - 1; i > 0; i-- {
			j := int(splitmix(&st) % uint64(i+1))
			if i != j {
				out[i], out[j] = out[j], out[i]
			}
		}
		for i := range out {
			if out[i] != ks[i].idx {
				permuted = true
				break
			}
		}
	}
	if traceW != nil || keepMem {
		ph := canonPermHash(out, ks)
		if keepMem {
			memTrace = append(memTrace, Decision{Site: site, Ordinal: ord, N: len(out), KeyHash: keyHash, PermHash: ph, Permuted: permuted})
		}
		if traceW != nil {
			p := 0
			if permuted {
				p = 1
			}
			fmt.Fprintf(traceW, "%s\t%d\t%d\t%016x\t%016x\t%d\n", site, ord, len(out), keyHash, ph, p)
			traceW.Flush()
		}
	}
	return out
}

// canonPermHash hashes the permutation expressed in canonical positions, so
// that the trace is independent of Go's own map order in this process.
func canonPermHash(out []int, ks []keyed) uint64 {
	pos := make(map[int]int, len(ks))
	for i := range ks {
		pos[ks[i].idx] = i
	}
	var ph uint64 = 14695981039346656037
	for _, ix := range out {
		ph = fnv(ph, strconv.Itoa(pos[ix]))
	}
	return ph
}

func keyText(k any) string {
	switch v := k.(type) {
	case string:
		return v
	case int:
		return fmt.Sprintf("%020d", v)
	case uint:
		return fmt.Sprintf("%020d", v)
	case uint32:
		return fmt.Sprintf("%020d", v)
	case uint64:
		return fmt.Sprintf("%020d", v)
	case int64:
		return fmt.Sprintf("%020d", v)
	case fmt.Stringer:
		return fmt.Sprintf("%#v", k)
	default:
		return fmt.Sprintf("%#v", k)
	}
}

// M iterates a map in simulator-chosen order. Keys are snapshotted at loop
// start; a key deleted before its turn is skipped; keys inserted during the
// loop are not visited. Both are behaviours the Go specification permits.
func M[Map ~map[K]V, K comparable, V any](m Map, site string) iter.Seq2[K, V] {
	return func(yield func(K, V) bool) {
		if len(m) == 0 {
			order(site, nil)
			return
		}
		keys := make([]K, 0, len(m))
		for k := range m {
			keys = append(keys, k)
		}
		raw := make([]string, len(keys))
		for i, k := range keys {
			raw[i] = keyText(k)
		}
		for _, ix := range order(site, raw) {
			k := keys[ix]
			v, ok := m[k]
			if !ok {
				continue
			}
			if !yield(k, v) {
				return
			}
		}
	}
}

// Keys / Values are the instrumented forms of maps.Keys / maps.Values.
func Keys[Map ~map[K]V, K comparable, V any](m Map, site string) iter.Seq[K] {
	return func(yield func(K) bool) {
		for k := range M(m, site) {
			if !yield(k) {
				return
			}
		}
	}
}

func Values[Map ~map[K]V, K comparable, V any](m Map, site string) iter.Seq[V] {
	return func(yield func(V) bool) {
		for _, v := range M(m, site) {
			if !yield(v) {
				return
			}
		}
	}
}

// S reorders a slice that came out of an unordered container (mapset.ToSlice).
func S[T any](s []T, site string) []T {
	raw := make([]string, len(s))
	for i := range s {
		raw[i] = keyText(any(s[i]))
	}
	out := make([]T, len(s))
	for i, ix := range order(site, raw) {
		out[i] = s[ix]
	}
	return out
}

// Pkgs reorders the result of packages.Load (documented as unordered).
func Pkgs(site string) func([]*packages.Package, error) ([]*packages.Package, error) {
	return func(p []*packages.Package, err error) ([]*packages.Package, error) {
		if err != nil || len(p) == 0 {
			return p, err
		}
		raw := make([]string, len(p))
		for i := range p {
			raw[i] = p[i].ID
		}
		out := make([]*packages.Package, len(p))
		for i, ix := range order(site, raw) {
			out[i] = p[ix]
		}
		return out, nil
	}
}

// Strs reorders the result of a glob.
func Strs(site string) func([]string, error) ([]string, error) {
	return func(s []string, err error) ([]string, error) {
		if err != nil || len(s) == 0 {
			return s, err
		}
		out := make([]string, len(s))
		for i, ix := range order(site, s) {
			out[i] = s[ix]
		}
		return out, nil
	}
}

// projectRoot returns the directory the normalisation table maps to $P ("" if none).
func projectRoot() string {
	mu.Lock()
	defer mu.Unlock()
	for _, kv := range norm {
		if kv[1] == "$P" {
			return kv[0]
		}
	}
	return ""
}

// Load is the instrumented form of packages.Load. go/packages parses files on
// several goroutines and adds them to the caller's FileSet in whatever order
// they finish, so token.Pos values of different files compare differently from
// run to run. The simulator owns that order: the files of the project's own
// packages are parsed by the FIRST ParseFile callback, all at once, in a seeded
// permutation of their (normalised) paths; every later callback is served from
// that result. Files outside the project root are parsed as usual (gleece never
// compares their positions with the project's). The returned package list is
// then permuted like Pkgs does.
func Load(site string, cfg *packages.Config, patterns ...string) ([]*packages.Package, error) {
	root := projectRoot()
	if cfg == nil || root == "" || cfg.ParseFile != nil {
		return Pkgs(site)(packages.Load(cfg, patterns...))
	}
	// which project files will be parsed? (a cheap listing, no syntax)
	pre := &packages.Config{Mode: packages.NeedName | packages.NeedFiles | packages.NeedCompiledGoFiles | packages.NeedImports | packages.NeedDeps,
		Dir: cfg.Dir, Env: cfg.Env, BuildFlags: cfg.BuildFlags, Tests: cfg.Tests, Context: cfg.Context}
	listed, err := packages.Load(pre, patterns...)
	if err != nil {
		return Pkgs(site)(packages.Load(cfg, patterns...))
	}
	fileSet := map[string]bool{}
	packages.Visit(listed, nil, func(p *packages.Package) {
		for _, f := range p.CompiledGoFiles {
			if strings.HasPrefix(f, root+"/") && strings.HasSuffix(f, ".go") {
				fileSet[f] = true
			}
		}
	})
	files := make([]string, 0, len(fileSet))
	for f := range fileSet {
		files = append(files, f)
	}
	sort.Strings(files)
	planned := make([]string, len(files))
	for i, ix := range order(site+"/parse", files) {
		planned[i] = files[ix]
	}
	type parsed struct {
		f   *ast.File
		err error
	}
	var once sync.Once
	results := map[string]parsed{}
	cp := *cfg
	const mode = parser.AllErrors | parser.ParseComments // what go/packages uses by default
	cp.ParseFile = func(fset *token.FileSet, filename string, src []byte) (*ast.File, error) {
		if !fileSet[filename] {
			return parser.ParseFile(fset, filename, src, mode)
		}
		once.Do(func() {
			for _, name := range planned {
				var s any
				if name == filename {
					s = src
				}
				f, err := parser.ParseFile(fset, name, s, mode)
				results[name] = parsed{f, err}
			}
		})
		r := results[filename]
		return r.f, r.err
	}
	return Pkgs(site)(packages.Load(&cp, patterns...))
}

// ---------------------------------------------------------------- goroutines
//
// gleece's own packages start no goroutines today; if a change introduces a
// fan-out ("go f()" ... "wg.Wait()"), the order in which those goroutines run
// is scheduling the simulator must own. The instrumenter rewrites
//
//	go f(x)      ->  verifsim.Go("site", func() { f(x) })
//	wg.Wait()    ->  verifsim.Join("site"); wg.Wait()
//
// Go does not start anything: it queues the closure. Join runs everything
// queued so far, one closure at a time, in a seeded permutation of the queue
// (closures queued while it runs are taken in the next round). Goroutines that
// talk to each other through channels cannot be serialised like this; the
// instrumenter keeps reporting those as warnings.
var pending []func()

func Go(site string, f func()) {
	mu.Lock()
	pending = append(pending, f)
	mu.Unlock()
}

func Join(site string) {
	for {
		mu.Lock()
		batch := pending
		pending = nil
		mu.Unlock()
		if len(batch) == 0 {
			return
		}
		keys := make([]string, len(batch))
		for i := range batch {
			keys[i] = fmt.Sprintf("g%04d", i)
		}
		for _, ix := range order(site, keys) {
			batch[ix]()
		}
	}
}

// JoinVal runs the queued goroutine bodies (Join) and then calls the original
// Wait method; it works for both "wg.Wait()" (no result) and "err := g.Wait()".
func JoinVal[F func() | func() error](site string, wait F) error {
	Join(site)
	switch w := any(wait).(type) {
	case func():
		w()
		return nil
	case func() error:
		return w()
	}
	return nil
}
