// Package graphsim drives graphs/symboldg.SymbolGraph (instrumented copy: its
// internal map iterations follow simulator-chosen per-call orders) through
// seeded edit histories and compares every public answer with a plain
// set-of-nodes / set-of-edges reference model after every operation (C17).
package graphsim

import (
	"encoding/json"
	"fmt"
	"go/ast"
	"go/token"
	"os"
	"sort"
	"strings"
	"testing"
	"time"

	"pgregory.net/rapid"

	"github.com/gopher-fleece/gleece/v2/common"
	"github.com/gopher-fleece/gleece/v2/core/metadata"
	"github.com/gopher-fleece/gleece/v2/core/metadata/typeref"
	"github.com/gopher-fleece/gleece/v2/gast"
	"github.com/gopher-fleece/gleece/v2/graphs"
	"github.com/gopher-fleece/gleece/v2/graphs/symboldg"
	"github.com/gopher-fleece/gleece/v2/verifsim"
)

// ------------------------------------------------------------------ universe

type declKey struct {
	name string
	file int // 0 = fileA, 1 = fileB (versioned), 2 = fileC (never re-versioned; may be referenced before it exists)
	pos  int
}

var decls = []declKey{
	{"A0", 0, 10}, {"A1", 0, 20}, {"A2", 0, 30},
	{"B0", 1, 10}, {"B1", 1, 20}, {"B2", 1, 30},
	{"C0", 2, 10}, {"C1", 2, 20},
}

var filePaths = []string{"/sim/fileA.go", "/sim/fileB.go", "/sim/fileC.go"}

var prims = []common.PrimitiveType{common.PrimitiveTypeString, common.PrimitiveTypeInt, common.PrimitiveTypeBool}
// the last two kinds are spelled so that one name is a suffix of the other ("param" / "typaram")
var edgeKinds = []symboldg.SymbolEdgeKind{symboldg.EdgeKindType, symboldg.EdgeKindReference, symboldg.EdgeKindField, symboldg.EdgeKindReceiver,
	symboldg.EdgeKindParam, symboldg.EdgeKindTypeParameter}

func fileVersion(file, v int) *gast.FileVersion {
	return &gast.FileVersion{Path: filePaths[file], ModTime: time.Unix(int64(1_700_000_000+v*100), 0), Hash: fmt.Sprintf("hash-%d-%d", file, v)}
}

var idents = func() []*ast.Ident {
	out := make([]*ast.Ident, len(decls))
	for i, d := range decls {
		out[i] = &ast.Ident{Name: d.name, NamePos: token.Pos(d.pos)}
	}
	return out
}()

func keyOf(d int, v int) graphs.SymbolKey {
	return graphs.NewSymbolKey(idents[d], fileVersion(decls[d].file, v))
}

func primKey(p common.PrimitiveType) graphs.SymbolKey { return graphs.NewUniverseSymbolKey(string(p)) }

// -------------------------------------------------------------------- model

type mNode struct {
	key  graphs.SymbolKey
	kind common.SymKind
	ver  int // -1 for builtins
}

type mEdge struct {
	from, to string // base ids
	kind     symboldg.SymbolEdgeKind
}

type model struct {
	nodes map[string]*mNode
	edges map[mEdge]bool
	// never[baseId] = true while an edge endpoint has never been created as a node
	created map[string]bool
	// ambiguous is set when the history reached a state C17 does not decide (dangling-only dependant)
	ambiguous string
}

func newModel() *model {
	return &model{nodes: map[string]*mNode{}, edges: map[mEdge]bool{}, created: map[string]bool{}}
}

func (m *model) addBuiltin(k graphs.SymbolKey, kind common.SymKind) {
	b := k.BaseId()
	if m.nodes[b] == nil {
		m.nodes[b] = &mNode{key: k, kind: kind, ver: -1}
		m.created[b] = true
	}
}

// addDecl: adding an existing node (same version) changes nothing; a newer
// version replaces the stale node (= RemoveNode(stale), then insert).
// Returns false when the node already existed in this version.
func (m *model) addDecl(d, v int, kind common.SymKind) bool {
	k := keyOf(d, v)
	b := k.BaseId()
	if n := m.nodes[b]; n != nil {
		if n.ver == v {
			return false
		}
		m.removeNode(b)
	}
	m.nodes[b] = &mNode{key: k, kind: kind, ver: v}
	m.created[b] = true
	return true
}

func (m *model) addEdge(from, to graphs.SymbolKey, kind symboldg.SymbolEdgeKind) {
	m.edges[mEdge{from.BaseId(), to.BaseId(), kind}] = true
}

func (m *model) removeEdge(from, to graphs.SymbolKey, kind *symboldg.SymbolEdgeKind) {
	for e := range m.edges {
		if e.from == from.BaseId() && e.to == to.BaseId() && (kind == nil || e.kind == *kind) {
			delete(m.edges, e)
		}
	}
}

func (m *model) hasLiveDependency(b string) (live bool, danglingOnly bool) {
	dangling := false
	for e := range m.edges {
		if e.from != b {
			continue
		}
		if m.nodes[e.to] != nil {
			return true, false
		}
		dangling = true
	}
	return false, dangling
}

// removeNode: remove the node and every edge touching it, then - to a
// fixpoint - every node that had an edge to a removed node and is left
// without any dependency on an existing node.
func (m *model) removeNode(b string) {
	if m.nodes[b] == nil {
		return
	}
	work := []string{b}
	for len(work) > 0 {
		cur := work[0]
		work = work[1:]
		if m.nodes[cur] == nil {
			continue
		}
		var dependants []string
		for e := range m.edges {
			if e.to == cur && e.from != cur {
				dependants = append(dependants, e.from)
			}
		}
		delete(m.nodes, cur)
		for e := range m.edges {
			if e.from == cur || e.to == cur {
				delete(m.edges, e)
			}
		}
		sort.Strings(dependants)
		for _, d := range dependants {
			if m.nodes[d] == nil {
				continue
			}
			live, danglingOnly := m.hasLiveDependency(d)
			if live {
				continue
			}
			if danglingOnly {
				// the statement does not say whether an edge to a never-created key is a "remaining dependency"
				m.ambiguous = "dependant " + d + " is left with edges to never-created keys only"
				continue
			}
			work = append(work, d)
		}
	}
}

// ------------------------------------------------------------- observations

type obs struct {
	nodes    []string // "base|kind|ver"
	edges    []string // union of all GetEdges: "from->to:kind"
	outgoing []string // edges listed at their source
	incoming []string // edges listed at their target
	children map[string][]string
	parents  map[string][]string
	desc     map[string][]string
	byKind   map[string][]string
	// edgesBy[key/filter]: GetEdges(key, filter) as the graph answers it, and - as expectation - what the
	// graph's own unfiltered answer for that key contains for those kinds ("its answers agree with each other")
	edgesBy     map[string][]string
	edgesByWant map[string][]string
}

func edgeStr(from, to string, k symboldg.SymbolEdgeKind) string { return from + "->" + to + ":" + string(k) }

func allKeys(m *model, curVer []int) []graphs.SymbolKey {
	var ks []graphs.SymbolKey
	for i := range decls {
		v := 1
		if decls[i].file < 2 {
			v = curVer[decls[i].file]
		}
		k := keyOf(i, v)
		if n := m.nodes[k.BaseId()]; n != nil {
			k = n.key
		}
		ks = append(ks, k)
	}
	for _, p := range prims {
		ks = append(ks, primKey(p))
	}
	ks = append(ks, graphs.NewUniverseSymbolKey(string(common.SpecialTypeError)))
	return ks
}

func sorted(s []string) []string { sort.Strings(s); return s }

// A query variant is one way of asking Children/Parents/Descendants (and GetEdges): an edge-kind filter
// (nil = all kinds; several kinds = their union), a node filter (kinds or a predicate) and a result sorting.
// The statement's "child/parent/descendant queries return exactly the model's" holds for every variant;
// sorted variants must return the same multiset as the unsorted ones (ordinal order itself is not judged).
type variant struct {
	id        string
	edgeKinds []symboldg.SymbolEdgeKind
	nodeKinds []common.SymKind
	pred      func(baseId string) bool
	sorting   symboldg.TraversalResultSorting
	desc      bool // descendants are compared for this variant (node filters prune the walk: not decided by the statement)
}

func evenLen(b string) bool { return len(b)%2 == 0 }

var variants = func() []variant {
	vs := []variant{{id: "", desc: true}}
	name := func(ks []symboldg.SymbolEdgeKind) string {
		var p []string
		for _, k := range ks {
			p = append(p, string(k))
		}
		return strings.Join(p, "+")
	}
	for _, k := range edgeKinds {
		vs = append(vs, variant{id: string(k), edgeKinds: []symboldg.SymbolEdgeKind{k}, desc: true})
	}
	for i := range edgeKinds[:4] {
		for j := range edgeKinds[:4] {
			if i != j {
				ks := []symboldg.SymbolEdgeKind{edgeKinds[i], edgeKinds[j]}
				vs = append(vs, variant{id: name(ks), edgeKinds: ks, desc: i < j})
			}
		}
	}
	vs = append(vs, variant{id: name(edgeKinds), edgeKinds: edgeKinds, desc: true})
	vs = append(vs, variant{id: "param+typaram", edgeKinds: []symboldg.SymbolEdgeKind{symboldg.EdgeKindParam, symboldg.EdgeKindTypeParameter}, desc: true})
	// a kind no edge of the simulation carries
	vs = append(vs, variant{id: "call", edgeKinds: []symboldg.SymbolEdgeKind{symboldg.EdgeKindCall}, desc: true})
	for _, nk := range []common.SymKind{common.SymKindStruct, common.SymKindField, common.SymKindBuiltin} {
		vs = append(vs, variant{id: "node:" + string(nk), nodeKinds: []common.SymKind{nk}})
	}
	vs = append(vs, variant{id: "node:struct+enum/ty", nodeKinds: []common.SymKind{common.SymKindStruct, common.SymKindEnum}, edgeKinds: []symboldg.SymbolEdgeKind{symboldg.EdgeKindType}})
	vs = append(vs, variant{id: "pred:even", pred: evenLen})
	for _, srt := range []struct {
		n string
		s symboldg.TraversalResultSorting
	}{{"asc", symboldg.TraversalSortingOrdinalAsc}, {"desc", symboldg.TraversalSortingOrdinalDesc}} {
		vs = append(vs, variant{id: srt.n + ":", sorting: srt.s, desc: true})
		vs = append(vs, variant{id: srt.n + ":ref+ty", sorting: srt.s, edgeKinds: []symboldg.SymbolEdgeKind{symboldg.EdgeKindReference, symboldg.EdgeKindType}, desc: true})
		vs = append(vs, variant{id: srt.n + ":fld", sorting: srt.s, edgeKinds: []symboldg.SymbolEdgeKind{symboldg.EdgeKindField}, desc: true})
	}
	return vs
}()

// variantsFor: the unfiltered and the single-kind queries are asked after every operation; the whole list after
// the last operation of a history and after every operation whose order seed is a multiple of 3 (a property
// of the operation itself, so that shrinking a history keeps it)
func variantsFor(full bool) []variant {
	if full {
		return variants
	}
	return variants[:1+len(edgeKinds)]
}

func (v variant) edgeOK(k symboldg.SymbolEdgeKind) bool {
	if v.edgeKinds == nil {
		return true
	}
	for _, x := range v.edgeKinds {
		if x == k {
			return true
		}
	}
	return false
}

func (v variant) nodeOK(b string, kind common.SymKind) bool {
	if v.nodeKinds != nil {
		ok := false
		for _, x := range v.nodeKinds {
			if x == kind {
				ok = true
			}
		}
		if !ok {
			return false
		}
	}
	return v.pred == nil || v.pred(b)
}

func (v variant) behavior() *symboldg.TraversalBehavior {
	if v.edgeKinds == nil && v.nodeKinds == nil && v.pred == nil && v.sorting == symboldg.TraversalSortingNone {
		return nil
	}
	b := &symboldg.TraversalBehavior{Sorting: v.sorting}
	b.Filtering.EdgeKinds = v.edgeKinds
	b.Filtering.NodeKinds = v.nodeKinds
	if v.pred != nil {
		p := v.pred
		b.Filtering.FilterFunc = func(n *symboldg.SymbolNode) bool { return p(n.Id.BaseId()) }
	}
	return b
}

func observeModel(m *model, keys []graphs.SymbolKey, full bool) obs {
	o := obs{children: map[string][]string{}, parents: map[string][]string{}, desc: map[string][]string{}, byKind: map[string][]string{}}
	for b, n := range m.nodes {
		o.nodes = append(o.nodes, fmt.Sprintf("%s|%s|%d", b, n.kind, n.ver))
		o.byKind[string(n.kind)] = append(o.byKind[string(n.kind)], b)
	}
	for e := range m.edges {
		s := edgeStr(e.from, e.to, e.kind)
		o.edges = append(o.edges, s)
		o.outgoing = append(o.outgoing, s)
		o.incoming = append(o.incoming, s)
	}
	// adjacency once per observation
	out := map[string][]mEdge{}
	in := map[string][]mEdge{}
	for e := range m.edges {
		out[e.from] = append(out[e.from], e)
		in[e.to] = append(in[e.to], e)
	}
	for _, v := range variantsFor(full) {
		for _, k := range keys {
			b := k.BaseId()
			if m.nodes[b] == nil {
				continue
			}
			id := b + "/" + v.id
			for _, e := range out[b] {
				if v.edgeOK(e.kind) && m.nodes[e.to] != nil && v.nodeOK(e.to, m.nodes[e.to].kind) {
					o.children[id] = append(o.children[id], e.to)
				}
			}
			for _, e := range in[b] {
				if v.edgeOK(e.kind) && m.nodes[e.from] != nil && v.nodeOK(e.from, m.nodes[e.from].kind) {
					o.parents[id] = append(o.parents[id], e.from)
				}
			}
			if !v.desc {
				continue
			}
			// descendants: transitive closure over existing nodes (the root itself only if reachable)
			seen := map[string]bool{}
			var walk func(string)
			walk = func(x string) {
				for _, e := range out[x] {
					if !v.edgeOK(e.kind) || m.nodes[e.to] == nil || seen[e.to] {
						continue
					}
					seen[e.to] = true
					walk(e.to)
				}
			}
			walk(b)
			for d := range seen {
				o.desc[id] = append(o.desc[id], d)
			}
		}
	}
	return o.norm()
}

func (o obs) norm() obs {
	sorted(o.nodes)
	sorted(o.edges)
	sorted(o.outgoing)
	sorted(o.incoming)
	for _, mm := range []map[string][]string{o.children, o.parents, o.desc, o.byKind, o.edgesBy, o.edgesByWant} {
		for k := range mm {
			sorted(mm[k])
		}
	}
	return o
}

func ids(ns []*symboldg.SymbolNode) []string {
	var out []string
	for _, n := range ns {
		out = append(out, n.Id.BaseId())
	}
	return out
}

func dedup(s []string) []string {
	sort.Strings(s)
	var out []string
	for i, x := range s {
		if i == 0 || x != s[i-1] {
			out = append(out, x)
		}
	}
	return out
}

func observeGraph(g symboldg.SymbolGraphBuilder, m *model, keys []graphs.SymbolKey, full bool) obs {
	o := obs{children: map[string][]string{}, parents: map[string][]string{}, desc: map[string][]string{}, byKind: map[string][]string{}}
	verOf := func(n *symboldg.SymbolNode) int {
		if n.Version == nil {
			return -1
		}
		return int(n.Version.ModTime.Unix()-1_700_000_000) / 100
	}
	edgeSet := map[string]bool{}
	for _, k := range keys {
		b := k.BaseId()
		if g.Exists(k) {
			n := g.Get(k)
			o.nodes = append(o.nodes, fmt.Sprintf("%s|%s|%d", n.Id.BaseId(), n.Kind, verOf(n)))
		}
		for _, d := range g.GetEdges(k, nil) {
			s := edgeStr(d.Edge.From.BaseId(), d.Edge.To.BaseId(), d.Edge.Kind)
			edgeSet[s] = true
			if d.Edge.From.BaseId() == b {
				o.outgoing = append(o.outgoing, s)
			}
			if d.Edge.To.BaseId() == b {
				o.incoming = append(o.incoming, s)
			}
		}
	}
	for s := range edgeSet {
		o.edges = append(o.edges, s)
	}
	o.outgoing, o.incoming = dedup(o.outgoing), dedup(o.incoming)
	for _, v := range variantsFor(full) {
		beh := v.behavior()
		for _, k := range keys {
			n := g.Get(k)
			if n == nil {
				continue
			}
			id := k.BaseId() + "/" + v.id
			if c := ids(g.Children(n, beh)); len(c) > 0 {
				o.children[id] = c
			}
			if p := ids(g.Parents(n, beh)); len(p) > 0 {
				o.parents[id] = p
			}
			if !v.desc {
				continue
			}
			if d := dedup(ids(g.Descendants(n, beh))); len(d) > 0 {
				o.desc[id] = d
			}
		}
	}
	// GetEdges under every kind filter (each order of a pair): the filtered answer must be exactly the part of
	// the unfiltered answer that carries those kinds
	o.edgesBy, o.edgesByWant = map[string][]string{}, map[string][]string{}
	for _, k := range keys {
		all := g.GetEdges(k, nil)
		for _, v := range variantsFor(full) {
			if v.edgeKinds == nil || v.nodeKinds != nil || v.pred != nil || v.sorting != symboldg.TraversalSortingNone {
				continue
			}
			id := k.BaseId() + "/" + v.id
			for _, d := range g.GetEdges(k, v.edgeKinds) {
				o.edgesBy[id] = append(o.edgesBy[id], edgeStr(d.Edge.From.BaseId(), d.Edge.To.BaseId(), d.Edge.Kind))
			}
			for _, d := range all {
				if v.edgeOK(d.Edge.Kind) {
					o.edgesByWant[id] = append(o.edgesByWant[id], edgeStr(d.Edge.From.BaseId(), d.Edge.To.BaseId(), d.Edge.Kind))
				}
			}
		}
	}
	for _, kind := range []common.SymKind{common.SymKindStruct, common.SymKindEnum, common.SymKindAlias, common.SymKindConstant, common.SymKindField, common.SymKindBuiltin, common.SymKindSpecialBuiltin} {
		if l := ids(g.FindByKind(kind)); len(l) > 0 {
			o.byKind[string(kind)] = l
		}
	}
	return o.norm()
}

func cmpList(what string, a, b []string) string {
	if strings.Join(a, "\n") == strings.Join(b, "\n") {
		return ""
	}
	return fmt.Sprintf("%s: model %v vs graph %v", what, a, b)
}

func cmpMap(what string, a, b map[string][]string) string {
	keys := map[string]bool{}
	for k := range a {
		keys[k] = true
	}
	for k := range b {
		keys[k] = true
	}
	var ks []string
	for k := range keys {
		ks = append(ks, k)
	}
	sort.Strings(ks)
	for _, k := range ks {
		if d := cmpList(what+"("+k+")", a[k], b[k]); d != "" {
			return d
		}
	}
	return ""
}

// compare returns (class, detail) of the first disagreement.
func compare(mo, go_ obs) (string, string) {
	if d := cmpList("incoming-vs-outgoing", go_.outgoing, go_.incoming); d != "" {
		return "in-out-asymmetry", strings.Replace(d, "model", "listed at source", 1)
	}
	if d := cmpList("nodes", mo.nodes, go_.nodes); d != "" {
		return "nodes", d
	}
	if d := cmpList("edges", mo.edges, go_.edges); d != "" {
		return "edges", d
	}
	if d := cmpMap("GetEdges", go_.edgesByWant, go_.edgesBy); d != "" {
		return "edges-filtered", strings.Replace(strings.Replace(d, "model", "unfiltered answer restricted to the kinds", 1), "vs graph", "vs filtered answer", 1)
	}
	if d := cmpMap("FindByKind", mo.byKind, go_.byKind); d != "" {
		return "find-by-kind", d
	}
	if d := cmpMap("Children", mo.children, go_.children); d != "" {
		return "children", d
	}
	if d := cmpMap("Parents", mo.parents, go_.parents); d != "" {
		return "parents", d
	}
	if d := cmpMap("Descendants", mo.desc, go_.desc); d != "" {
		return "descendants", d
	}
	return "", ""
}

// ---------------------------------------------------------------------- ops

type op struct {
	Kind  string `json:"op"`
	D     int    `json:"d,omitempty"`   // declared key index
	D2    int    `json:"d2,omitempty"`  // second key
	Prim  int    `json:"prim,omitempty"`
	EK    int    `json:"ek,omitempty"`  // edge kind index; -1 = nil (all kinds)
	Subs  []int  `json:"subs,omitempty"` // fields / enum values (declared key indexes)
	ToPrim bool  `json:"to_prim,omitempty"`
	Pick   int   `json:"pick,omitempty"` // >0: aim at the (Pick-1)-th existing edge / node instead of a blind draw
	Seed  uint64 `json:"order_seed"`
}

func (o op) String() string {
	name := func(i int) string { return decls[i].name }
	switch o.Kind {
	case "AddPrimitive":
		return fmt.Sprintf("AddPrimitive(%s)", prims[o.Prim])
	case "AddSpecial":
		return "AddSpecial(error)"
	case "AddStruct":
		var f []string
		for _, s := range o.Subs {
			f = append(f, name(s))
		}
		return fmt.Sprintf("AddStruct(%s, fields=%v)", name(o.D), f)
	case "AddEnum":
		var f []string
		for _, s := range o.Subs {
			f = append(f, name(s))
		}
		return fmt.Sprintf("AddEnum(%s:%s, values=%v)", name(o.D), prims[o.Prim], f)
	case "AddField":
		return fmt.Sprintf("AddField(%s:%s)", name(o.D), prims[o.Prim])
	case "AddAlias":
		return fmt.Sprintf("AddAlias(%s)", name(o.D))
	case "AddConst":
		return fmt.Sprintf("AddConst(%s)", name(o.D))
	case "AddEdge":
		to := ""
		if o.ToPrim {
			to = string(prims[o.Prim])
		} else {
			to = name(o.D2)
		}
		return fmt.Sprintf("AddEdge(%s,%s,%s)", name(o.D), to, edgeKinds[o.EK])
	case "RemoveEdge":
		to := ""
		if o.ToPrim {
			to = string(prims[o.Prim])
		} else {
			to = name(o.D2)
		}
		k := "nil"
		if o.EK >= 0 {
			k = string(edgeKinds[o.EK])
		}
		return fmt.Sprintf("RemoveEdge(%s,%s,%s)", name(o.D), to, k)
	case "RemoveNode":
		return fmt.Sprintf("RemoveNode(%s)", name(o.D))
	case "RemovePrimitive":
		return fmt.Sprintf("RemoveNode(%s)", prims[o.Prim])
	case "NewVersion":
		return fmt.Sprintf("NewVersion(%s)", filePaths[o.D])
	case "Repeat":
		return "Repeat(previous)"
	}
	return o.Kind
}

type world struct {
	g      symboldg.SymbolGraph
	m      *model
	curVer []int // current version of fileA, fileB
	probes map[string]int
}

func newWorld() *world {
	return &world{g: symboldg.NewSymbolGraph(), m: newModel(), curVer: []int{1, 1}, probes: map[string]int{}}
}

func (w *world) ver(d int) int {
	if decls[d].file == 2 {
		return 1
	}
	return w.curVer[decls[d].file]
}

// endpointKey is the key an edge names for declared key d: the version the node
// currently has if it exists, else (only for fileC keys) version 1.
func (w *world) endpointKey(d int) (graphs.SymbolKey, bool) {
	k := keyOf(d, w.ver(d))
	if n := w.m.nodes[k.BaseId()]; n != nil {
		return n.key, true
	}
	if decls[d].file == 2 {
		return keyOf(d, 1), true
	}
	return graphs.SymbolKey{}, false // a not-yet-existing endpoint is only named in the never-re-versioned file
}

func snm(d, v int) metadata.SymNodeMeta {
	return metadata.SymNodeMeta{Name: decls[d].name, Node: idents[d], FVersion: fileVersion(decls[d].file, v)}
}

func primUsage(p common.PrimitiveType, fv *gast.FileVersion) metadata.TypeUsageMeta {
	k := primKey(p)
	r := typeref.NewNamedTypeRef(&k, nil)
	return metadata.TypeUsageMeta{SymNodeMeta: metadata.SymNodeMeta{Name: string(p), FVersion: fv}, Root: &r}
}

// apply executes one operation on graph and model. It returns an error text if
// the graph API itself reports an error the model does not expect.
func (w *world) apply(o op) string {
	verifsim.Configure(&verifsim.Spec{Seed: o.Seed, PerCall: true, All: true})
	switch o.Kind {
	case "AddPrimitive":
		w.g.AddPrimitive(prims[o.Prim])
		w.m.addBuiltin(primKey(prims[o.Prim]), common.SymKindBuiltin)
	case "AddSpecial":
		w.g.AddSpecial(common.SpecialTypeError)
		w.m.addBuiltin(graphs.NewUniverseSymbolKey(string(common.SpecialTypeError)), common.SymKindSpecialBuiltin)
	case "AddStruct":
		v := w.ver(o.D)
		sm := metadata.StructMeta{SymNodeMeta: snm(o.D, v)}
		if n := w.m.nodes[keyOf(o.D, v).BaseId()]; n != nil && n.ver != v {
			w.probes["stale version replaced"]++
		}
		// the model is advanced first, so that the field keys name the versions that are
		// live AFTER a stale node (and its orphaned dependants) has been replaced
		w.m.addDecl(o.D, v, common.SymKindStruct)
		var fieldKeys []graphs.SymbolKey
		for _, s := range o.Subs {
			fk, ok := w.endpointKey(s)
			if !ok {
				continue
			}
			fv := fileVersion(decls[s].file, 1)
			if n := w.m.nodes[fk.BaseId()]; n != nil && n.ver > 0 {
				fv = fileVersion(decls[s].file, n.ver)
			}
			sm.Fields = append(sm.Fields, metadata.FieldMeta{SymNodeMeta: metadata.SymNodeMeta{Name: decls[s].name, Node: idents[s], FVersion: fv}})
			fieldKeys = append(fieldKeys, fk)
		}
		if _, err := w.g.AddStruct(symboldg.CreateStructNode{Data: sm}); err != nil {
			return "AddStruct: " + err.Error()
		}
		for _, fk := range fieldKeys {
			w.m.addEdge(keyOf(o.D, v), fk, symboldg.EdgeKindField)
		}
	case "AddEnum":
		v := w.ver(o.D)
		em := metadata.EnumMeta{SymNodeMeta: snm(o.D, v), ValueKind: metadata.EnumValueKind(prims[o.Prim])}
		var vals []int
		for _, s := range o.Subs {
			if s == o.D || decls[s].file != decls[o.D].file {
				continue
			}
			em.Values = append(em.Values, metadata.EnumValueDefinition{SymNodeMeta: snm(s, w.ver(s)), Value: decls[s].name})
			vals = append(vals, s)
		}
		if _, err := w.g.AddEnum(symboldg.CreateEnumNode{Data: em}); err != nil {
			return "AddEnum: " + err.Error()
		}
		w.m.addDecl(o.D, v, common.SymKindEnum)
		w.m.addBuiltin(primKey(prims[o.Prim]), common.SymKindBuiltin)
		for _, s := range vals {
			w.m.addDecl(s, w.ver(s), common.SymKindConstant)
			vk := w.m.nodes[keyOf(s, w.ver(s)).BaseId()].key
			w.m.addEdge(keyOf(o.D, v), vk, symboldg.EdgeKindValue)
			w.m.addEdge(vk, primKey(prims[o.Prim]), symboldg.EdgeKindReference)
		}
	case "AddField":
		v := w.ver(o.D)
		fm := metadata.FieldMeta{SymNodeMeta: snm(o.D, v), Type: primUsage(prims[o.Prim], fileVersion(decls[o.D].file, v))}
		fm.SymbolKind = common.SymKindField
		if _, err := w.g.AddField(symboldg.CreateFieldNode{Data: fm}); err != nil {
			return "AddField: " + err.Error()
		}
		w.m.addDecl(o.D, v, common.SymKindField)
		w.m.addBuiltin(primKey(prims[o.Prim]), common.SymKindBuiltin)
		w.m.addEdge(w.m.nodes[keyOf(o.D, v).BaseId()].key, primKey(prims[o.Prim]), symboldg.EdgeKindType)
	case "AddAlias":
		v := w.ver(o.D)
		if _, err := w.g.AddAlias(symboldg.CreateAliasNode{Data: metadata.AliasMeta{SymNodeMeta: snm(o.D, v)}}); err != nil {
			return "AddAlias: " + err.Error()
		}
		w.m.addDecl(o.D, v, common.SymKindAlias)
	case "AddConst":
		v := w.ver(o.D)
		if _, err := w.g.AddConst(symboldg.CreateConstNode{Data: metadata.ConstMeta{SymNodeMeta: snm(o.D, v)}}); err != nil {
			return "AddConst: " + err.Error()
		}
		w.m.addDecl(o.D, v, common.SymKindConstant)
	case "AddEdge", "RemoveEdge":
		from, ok := w.endpointKey(o.D)
		if !ok {
			return ""
		}
		var to graphs.SymbolKey
		if o.ToPrim {
			to = primKey(prims[o.Prim])
		} else {
			to, ok = w.endpointKey(o.D2)
			if !ok {
				return ""
			}
		}
		if o.Kind == "AddEdge" {
			k := edgeKinds[o.EK]
			n := 0
			for e := range w.m.edges {
				if e.from == from.BaseId() && e.to == to.BaseId() {
					n++
				}
			}
			if n >= 1 {
				w.probes["second edge between one ordered pair"]++
			}
			w.g.AddEdge(from, to, k, nil)
			w.m.addEdge(from, to, k)
		} else {
			var kp *symboldg.SymbolEdgeKind
			if o.EK >= 0 {
				k := edgeKinds[o.EK]
				kp = &k
			}
			n, hit := 0, false
			for e := range w.m.edges {
				if e.from == from.BaseId() && e.to == to.BaseId() {
					n++
					if kp != nil && e.kind == *kp {
						hit = true
					}
				}
			}
			if n >= 2 && hit {
				w.probes["two kinds between one pair then remove one"]++
			}
			w.g.RemoveEdge(from, to, kp)
			w.m.removeEdge(from, to, kp)
		}
	case "RemoveNode", "RemovePrimitive":
		var k graphs.SymbolKey
		if o.Kind == "RemovePrimitive" {
			k = primKey(prims[o.Prim])
		} else {
			kk, ok := w.endpointKey(o.D)
			if !ok {
				kk = keyOf(o.D, w.ver(o.D)) // removing something absent
			}
			k = kk
		}
		before := len(w.m.nodes)
		deps := 0
		for e := range w.m.edges {
			if e.to == k.BaseId() {
				deps++
			}
		}
		w.g.RemoveNode(k)
		w.m.removeNode(k.BaseId())
		if w.m.nodes[k.BaseId()] == nil && before-len(w.m.nodes) >= 3 {
			w.probes["cascade removed >= 3 nodes"]++
		}
		if deps >= 2 {
			w.probes["removal with >= 2 dependants"]++
		}
		if before == len(w.m.nodes) {
			w.probes["remove something absent"]++
		}
	case "NewVersion":
		if w.curVer[o.D] < 3 {
			w.curVer[o.D]++
			w.probes["file re-versioned"]++
		}
	}
	return ""
}

// resolve turns an "aimed" operation into a concrete one using the current model
// state, so that removals and second edges mostly hit things that exist.
func (w *world) resolve(o op) op {
	if o.Pick <= 0 {
		return o
	}
	declIdx := func(base string) (int, bool) {
		for i := range decls {
			if keyOf(i, 1).BaseId() == base {
				return i, true
			}
		}
		return 0, false
	}
	primIdx := func(base string) (int, bool) {
		for i, p := range prims {
			if primKey(p).BaseId() == base {
				return i, true
			}
		}
		return 0, false
	}
	switch o.Kind {
	case "RemoveEdge", "AddEdge":
		var es []mEdge
		for e := range w.m.edges {
			es = append(es, e)
		}
		if len(es) == 0 {
			break
		}
		sort.Slice(es, func(i, j int) bool { return fmt.Sprint(es[i]) < fmt.Sprint(es[j]) })
		e := es[(o.Pick-1)%len(es)]
		f, ok := declIdx(e.from)
		if !ok {
			break
		}
		o.D = f
		if t, ok := declIdx(e.to); ok {
			o.D2, o.ToPrim = t, false
		} else if pi, ok := primIdx(e.to); ok {
			o.Prim, o.ToPrim = pi, true
		} else {
			break
		}
		if o.Kind == "RemoveEdge" && o.EK >= 0 && o.Pick%3 != 0 {
			for i, k := range edgeKinds {
				if k == e.kind {
					o.EK = i
				}
			}
		}
		// AddEdge keeps its drawn kind: a second kind between an existing pair
	case "RemoveNode":
		var ns []int
		for b := range w.m.nodes {
			if i, ok := declIdx(b); ok {
				ns = append(ns, i)
			}
		}
		if len(ns) > 0 {
			sort.Ints(ns)
			o.D = ns[(o.Pick-1)%len(ns)]
		}
	}
	o.Pick = 0
	return o
}

var opGen = rapid.Custom(func(t *rapid.T) op { return drawOp(t) })

func drawOp(t *rapid.T) op {
	// rapid biases SampledFrom toward the front: the interesting operations come first
	kinds := []string{"AddEdge", "RemoveNode", "AddStruct", "RemoveEdge", "AddEdge", "AddField", "AddEnum", "NewVersion", "Repeat", "AddEdge",
		"RemoveNode", "RemoveEdge", "AddStruct", "AddAlias", "AddConst", "AddEnum", "AddField", "AddEdge", "RemovePrimitive", "AddPrimitive", "AddSpecial"}
	o := op{Kind: rapid.SampledFrom(kinds).Draw(t, "op")}
	o.Seed = rapid.Uint64Range(0, 1<<20).Draw(t, "order")
	nd := len(decls)
	switch o.Kind {
	case "AddPrimitive", "RemovePrimitive":
		o.Prim = rapid.IntRange(0, len(prims)-1).Draw(t, "prim")
	case "AddStruct":
		o.D = rapid.IntRange(0, nd-1).Draw(t, "d")
		o.Subs = rapid.SliceOfN(rapid.IntRange(0, nd-1), 0, 2).Draw(t, "fields")
	case "AddEnum":
		o.D = rapid.IntRange(0, nd-1).Draw(t, "d")
		o.Prim = rapid.IntRange(0, len(prims)-1).Draw(t, "prim")
		o.Subs = rapid.SliceOfN(rapid.IntRange(0, nd-1), 0, 2).Draw(t, "values")
	case "AddField":
		o.D = rapid.IntRange(0, nd-1).Draw(t, "d")
		o.Prim = rapid.IntRange(0, len(prims)-1).Draw(t, "prim")
	case "AddAlias", "AddConst":
		o.D = rapid.IntRange(0, nd-1).Draw(t, "d")
	case "RemoveNode":
		o.D = rapid.IntRange(0, nd-1).Draw(t, "d")
		o.Pick = rapid.IntRange(0, 12).Draw(t, "aim")
	case "AddEdge", "RemoveEdge":
		o.D = rapid.IntRange(0, nd-1).Draw(t, "from")
		if rapid.IntRange(0, 4).Draw(t, "toPrim") == 0 {
			o.ToPrim = true
			o.Prim = rapid.IntRange(0, len(prims)-1).Draw(t, "prim")
		} else {
			o.D2 = rapid.IntRange(0, nd-1).Draw(t, "to")
		}
		lo := 0
		if o.Kind == "RemoveEdge" {
			lo = -1
		}
		o.EK = rapid.IntRange(lo, len(edgeKinds)-1).Draw(t, "kind")
		o.Pick = rapid.IntRange(0, 12).Draw(t, "aim")
		if o.Kind == "AddEdge" && o.Pick > 4 {
			o.Pick = 0
		}
	case "NewVersion":
		o.D = rapid.IntRange(0, 1).Draw(t, "file")
	}
	return o
}

var filters = func() map[string]bool {
	m := map[string]bool{}
	for _, f := range strings.Split(os.Getenv("VERIF_FILTER"), ",") {
		if f != "" {
			m[f] = true
		}
	}
	return m
}()

type failure struct {
	Class     string   `json:"class"`
	Signature string   `json:"signature"`
	Detail    string   `json:"detail"`
	Ops       []string `json:"ops"`
	RawOps    []op     `json:"raw_ops"`
}

var stats = struct {
	histories, steps, ambiguous int
	states                      map[string]bool
	opHist                      map[string]int
	probes                      map[string]int
	samples                     [][]string
}{states: map[string]bool{}, opHist: map[string]int{}, probes: map[string]int{}}

func runHistory(t *rapid.T) {
	w := newWorld()
	drawn := rapid.SliceOfN(opGen, 1, 60).Draw(t, "ops")
	var hist []op
	var prev *op
	for oi, o := range drawn {
		if o.Kind == "Repeat" {
			// duplicate delivery: the previous operation verbatim, under another order schedule
			if prev == nil {
				continue
			}
			sd := o.Seed
			o = *prev
			o.Seed = sd
			w.probes["verbatim repeat"]++
		}
		o = w.resolve(o)
		hist = append(hist, o)
		po := o
		prev = &po
		errText := w.apply(o)
		stats.steps++
		stats.opHist[o.Kind]++
		for e := range w.m.edges {
			for _, b := range []string{e.from, e.to} {
				if w.m.nodes[b] == nil && !strings.Contains(b, filePaths[2]) && !strings.HasPrefix(b, graphs.UniverseTypeSymKeyPrefix) {
					w.m.ambiguous = "edge endpoint " + b + " does not exist and lives in a re-versionable file"
				}
			}
		}
		if w.m.ambiguous != "" {
			stats.ambiguous++
			break // C17 does not decide this state; stop judging the history here
		}
		keys := allKeys(w.m, w.curVer)
		verifsim.Configure(&verifsim.Spec{Seed: o.Seed ^ 0x5a5a, PerCall: true, All: true})
		full := oi == len(drawn)-1 || o.Seed%3 == 0
		g1 := observeGraph(&w.g, w.m, keys, full)
		mo := observeModel(w.m, keys, full)
		class, detail := compare(mo, g1)
		if class == "" && errText != "" {
			class, detail = "unexpected-error", errText
		}
		if class == "" {
			// I4: the same observations under another order schedule
			verifsim.Configure(&verifsim.Spec{Seed: o.Seed ^ 0xa5a5a5, PerCall: true, All: true})
			g2 := observeGraph(&w.g, w.m, keys, full)
			if c2, d2 := compare(g1, g2); c2 != "" {
				class, detail = "schedule-dependent-answer", d2
			}
		}
		if class != "" {
			var ops []string
			for _, h := range hist {
				ops = append(ops, h.String())
			}
			f := failure{Class: class, Signature: "C17|" + class + "|" + ops[len(ops)-1][:strings.Index(ops[len(ops)-1], "(")], Detail: detail, Ops: ops, RawOps: hist}
			b, _ := json.Marshal(f)
			t.Fatalf("VERIF-FAIL %s", b)
		}
		stats.states[fmt.Sprintf("%v", mo)] = true
	}
	stats.histories++
	if len(stats.samples) < 3 && len(hist) >= 4 && len(hist) <= 12 {
		var ops []string
		for _, h := range hist {
			ops = append(ops, h.String())
		}
		stats.samples = append(stats.samples, ops)
	}
	for k, v := range w.probes {
		stats.probes[k] += v
	}
}

func TestGraphSim(t *testing.T) {
	defer func() {
		if out := os.Getenv("VERIF_STATS_OUT"); out != "" {
			b, _ := json.Marshal(map[string]any{"histories": stats.histories, "steps": stats.steps, "ambiguous_stops": stats.ambiguous,
				"distinct_model_states": len(stats.states), "op_histogram": stats.opHist, "probes": stats.probes, "samples": stats.samples})
			os.WriteFile(out, b, 0o644)
		}
	}()
	rapid.Check(t, runHistory)
}
