// driver runs one or several simulated gleece generations / session histories
// in ONE process, under verifsim order schedules. It is copied into the
// instrumented scratch copy of gleece (package verifharness/driver) and links
// gleece's own packages as a library.
//
//	driver <jobs.json> <results.json>
package main

import (
	"crypto/sha256"
	"encoding/hex"
	"encoding/json"
	"fmt"
	"io"
	"log"
	"os"
	"sort"
	"time"

	"github.com/gopher-fleece/gleece/v2/cmd"
	"github.com/gopher-fleece/gleece/v2/cmd/arguments"
	"github.com/gopher-fleece/gleece/v2/common"
	"github.com/gopher-fleece/gleece/v2/core/pipeline"
	"github.com/gopher-fleece/gleece/v2/generator/routes"
	"github.com/gopher-fleece/gleece/v2/generator/swagen"
	"github.com/gopher-fleece/gleece/v2/graphs/symboldg"
	"github.com/gopher-fleece/gleece/v2/infrastructure/logger"
	"github.com/gopher-fleece/gleece/v2/verifsim"
)

type Job struct {
	Kind    string   `json:"kind"`    // generate | session
	Dir     string   `json:"dir"`     // working directory (project root)
	Config  string   `json:"config"`  // config file path
	Command string   `json:"command"` // spec-and-routes | spec | routes | spec,routes | routes,spec
	Order   string   `json:"order"`   // verifsim spec "seed:mode:sites" or "" (canonical)
	Now     string   `json:"now"`     // RFC3339 simulated clock ("" = runtime default)
	Now2    string   `json:"now2"`    // clock for the second command of a two-command form
	Calls   []string `json:"calls"`   // session: GenerateGraph | Validate | GenerateIntermediate | Run
	Render  bool     `json:"render"`  // session: render routes+spec from the last metadata
	Norm    string   `json:"norm"`    // verifsim path normalisation table
}

type SiteStat struct {
	Hits     int `json:"hits"`
	Permuted int `json:"permuted"`
	MaxN     int `json:"max_n"`
}

type CallObs struct {
	Call  string `json:"call"`
	Err   string `json:"err,omitempty"`
	Diag  string `json:"diag,omitempty"`  // canonical JSON of diagnostics (Validate)
	Meta  string `json:"meta,omitempty"`  // canonical JSON of flattened metadata
	Graph string `json:"graph,omitempty"` // node count per kind + edge count
}

type Result struct {
	OK           bool                `json:"ok"`
	Err          string              `json:"err,omitempty"`
	Panic        string              `json:"panic,omitempty"`
	DecisionHash string              `json:"decision_hash"`
	Decisions    int                 `json:"decisions"`
	Sites        map[string]SiteStat `json:"sites"`
	Calls        []CallObs           `json:"calls,omitempty"`
}

func main() {
	if len(os.Args) != 3 {
		fmt.Fprintln(os.Stderr, "usage: driver jobs.json results.json")
		os.Exit(2)
	}
	raw, err := os.ReadFile(os.Args[1])
	if err != nil {
		fmt.Fprintln(os.Stderr, err)
		os.Exit(2)
	}
	var jobs []Job
	if err := json.Unmarshal(raw, &jobs); err != nil {
		fmt.Fprintln(os.Stderr, err)
		os.Exit(2)
	}
	log.SetOutput(io.Discard)
	logger.SetLogLevel(logger.LogLevel(5))
	var results []Result
	for _, j := range jobs {
		results = append(results, runJob(j))
	}
	out, _ := json.Marshal(results)
	if err := os.WriteFile(os.Args[2], out, 0o644); err != nil {
		fmt.Fprintln(os.Stderr, err)
		os.Exit(2)
	}
}

func setNow(s string) {
	if s == "" {
		return
	}
	t, err := time.Parse(time.RFC3339, s)
	if err != nil {
		fmt.Fprintln(os.Stderr, "driver: bad now:", err)
		os.Exit(2)
	}
	verifsim.SetNow(t)
}

func runJob(j Job) (res Result) {
	res.Sites = map[string]SiteStat{}
	if err := os.Chdir(j.Dir); err != nil {
		fmt.Fprintln(os.Stderr, "driver: chdir:", err)
		os.Exit(2)
	}
	verifsim.SetNorm(j.Norm)
	if j.Order == "" {
		verifsim.Configure(nil)
	} else {
		s, err := verifsim.ParseSpec(j.Order)
		if err != nil {
			fmt.Fprintln(os.Stderr, "driver: bad order:", err)
			os.Exit(2)
		}
		verifsim.Configure(s)
	}
	verifsim.KeepTrace(true)
	setNow(j.Now)
	defer func() {
		if r := recover(); r != nil {
			res.OK = false
			res.Panic = fmt.Sprint(r)
		}
		tr := verifsim.TakeTrace()
		h := sha256.New()
		for _, d := range tr {
			fmt.Fprintf(h, "%s|%d|%d|%x|%x\n", d.Site, d.Ordinal, d.N, d.KeyHash, d.PermHash)
			st := res.Sites[d.Site]
			st.Hits++
			if d.Permuted {
				st.Permuted++
			}
			if d.N > st.MaxN {
				st.MaxN = d.N
			}
			res.Sites[d.Site] = st
		}
		res.Decisions = len(tr)
		res.DecisionHash = hex.EncodeToString(h.Sum(nil))[:16]
	}()

	switch j.Kind {
	case "generate":
		args := arguments.CliArguments{ConfigPath: j.Config}
		var err error
		switch j.Command {
		case "spec-and-routes":
			err = cmd.GenerateSpecAndRoutes(args)
		case "spec":
			err = cmd.GenerateSpec(args)
		case "routes":
			err = cmd.GenerateRoutes(args)
		case "spec,routes":
			err = cmd.GenerateSpec(args)
			if err == nil {
				setNow(j.Now2)
				err = cmd.GenerateRoutes(args)
			}
		case "routes,spec":
			err = cmd.GenerateRoutes(args)
			if err == nil {
				setNow(j.Now2)
				err = cmd.GenerateSpec(args)
			}
		default:
			fmt.Fprintln(os.Stderr, "driver: bad command", j.Command)
			os.Exit(2)
		}
		if err != nil {
			res.Err = err.Error()
		} else {
			res.OK = true
		}
	case "session":
		runSession(j, &res)
	default:
		fmt.Fprintln(os.Stderr, "driver: bad kind", j.Kind)
		os.Exit(2)
	}
	return res
}

var allKinds = []common.SymKind{
	common.SymKindUnknown, common.SymKindPackage, common.SymKindStruct, common.SymKindController,
	common.SymKindInterface, common.SymKindAlias, common.SymKindComposite, common.SymKindTypeParam,
	common.SymKindEnum, common.SymKindEnumValue, common.SymKindFunction, common.SymKindReceiver,
	common.SymKindField, common.SymKindParameter, common.SymKindVariable, common.SymKindConstant,
	common.SymKindReturnType, common.SymKindBuiltin, common.SymKindSpecialBuiltin,
}

func graphShape(g symboldg.SymbolGraphBuilder) string {
	counts := map[string]int{}
	edges := map[string]bool{}
	total := 0
	for _, k := range allKinds {
		nodes := g.FindByKind(k)
		if len(nodes) > 0 {
			counts[string(k)] = len(nodes)
			total += len(nodes)
		}
		for _, n := range nodes {
			for ek := range g.GetEdges(n.Id, nil) {
				edges[ek] = true
			}
		}
	}
	keys := make([]string, 0, len(counts))
	for k := range counts {
		keys = append(keys, k)
	}
	sort.Strings(keys)
	s := fmt.Sprintf("nodes=%d edges=%d", total, len(edges))
	for _, k := range keys {
		s += fmt.Sprintf(" %s=%d", k, counts[k])
	}
	return s
}

func canon(v any) string {
	b, err := json.Marshal(v)
	if err != nil {
		return "MARSHAL-ERROR: " + err.Error()
	}
	return string(b)
}

func runSession(j Job, res *Result) {
	config, err := cmd.LoadGleeceConfig(j.Config)
	if err != nil {
		res.Err = "config: " + err.Error()
		return
	}
	pipe, err := pipeline.NewGleecePipeline(config)
	if err != nil {
		res.Err = "new pipeline: " + err.Error()
		return
	}
	var last *pipeline.GleeceFlattenedMetadata
	for _, c := range j.Calls {
		obs := CallObs{Call: c}
		func() {
			defer func() {
				if r := recover(); r != nil {
					obs.Err = fmt.Sprint("panic: ", r)
				}
			}()
			switch c {
			case "GenerateGraph":
				if err := pipe.GenerateGraph(); err != nil {
					obs.Err = err.Error()
				}
			case "Validate":
				d, err := pipe.Validate()
				if err != nil {
					obs.Err = err.Error()
				}
				obs.Diag = canon(d)
			case "GenerateIntermediate":
				m, err := pipe.GenerateIntermediate()
				if err != nil {
					obs.Err = err.Error()
				} else {
					obs.Meta = canon(m)
					last = &m
				}
			case "Run":
				m, err := pipe.Run()
				if err != nil {
					obs.Err = err.Error()
				} else {
					obs.Meta = canon(m)
					last = &m
				}
			default:
				fmt.Fprintln(os.Stderr, "driver: bad call", c)
				os.Exit(2)
			}
			obs.Graph = graphShape(pipe.Graph())
		}()
		res.Calls = append(res.Calls, obs)
	}
	res.OK = true
	if j.Render && last != nil {
		if err := routes.GenerateRoutes(config, *last); err != nil {
			res.OK = false
			res.Err = "render routes: " + err.Error()
			return
		}
		if err := swagen.GenerateAndOutputSpec(&config.OpenAPIGeneratorConfig, last.Flat, &last.Models, last.PlainErrorPresent); err != nil {
			res.OK = false
			res.Err = "render spec: " + err.Error()
			return
		}
	}
}
