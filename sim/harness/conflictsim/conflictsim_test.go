// Package conflictsim checks paths.FindConflicts (instrumented copy: the
// trie's map walks follow simulator-chosen per-call orders) against a
// brute-force pairwise-overlap model, under seeded permutations of the route
// list (the "discovery order", which in gleece is a product of map walks) (C15).
package conflictsim

import (
	"encoding/json"
	"fmt"
	"os"
	"sort"
	"strings"
	"testing"

	"pgregory.net/rapid"

	"github.com/gopher-fleece/gleece/v2/core/metadata"
	"github.com/gopher-fleece/gleece/v2/core/validators/paths"
	"github.com/gopher-fleece/gleece/v2/verifsim"
)

type entry struct {
	ID     int    `json:"id"`
	Verb   string `json:"verb"`
	Path   string `json:"path"`
	segs   []string
}

var segAlphabet = []string{"a", "b", "c", "{x}", "{y}"}
var verbs = []string{"GET", "POST", "PUT"}

// refSegments is the reference normalisation: one leading slash, repeated
// slashes collapsed, trailing slashes dropped -> the list of non-empty segments.
func refSegments(p string) []string {
	var out []string
	for _, s := range strings.Split(p, "/") {
		if s != "" {
			out = append(out, s)
		}
	}
	return out
}

func isParam(s string) bool { return strings.HasPrefix(s, "{") && strings.HasSuffix(s, "}") }

func overlap(a, b []string) bool {
	if len(a) != len(b) {
		return false
	}
	for i := range a {
		if a[i] == b[i] || isParam(a[i]) || isParam(b[i]) {
			continue
		}
		return false
	}
	return true
}

var entryGen = rapid.Custom(func(t *rapid.T) entry { return drawEntry(t, 0) })

func drawEntry(t *rapid.T, id int) entry {
	depth := rapid.IntRange(0, 4).Draw(t, "depth")
	segs := make([]string, depth)
	for i := range segs {
		segs[i] = rapid.SampledFrom(segAlphabet).Draw(t, "seg")
	}
	// slash noise: 0-5 leading, 1-5 between segments, 0-4 trailing (mostly the plain spelling; runs of
	// three and more matter because a single pass of "//" -> "/" only halves them)
	slashes := func(label string, lo int) string {
		n := rapid.SampledFrom([]int{1, 1, 1, 1, 1, 1, 0, 2, 2, 3, 4, 5}).Draw(t, label)
		if n < lo {
			n = lo
		}
		return strings.Repeat("/", n)
	}
	p := slashes("lead", 0)
	for i, sg := range segs {
		if i > 0 {
			p += slashes("sep", 1)
		}
		p += sg
	}
	if rapid.IntRange(0, 3).Draw(t, "trail") == 0 {
		p += strings.Repeat("/", rapid.IntRange(1, 4).Draw(t, "ntrail"))
	}
	return entry{ID: id, Verb: rapid.SampledFrom(verbs).Draw(t, "verb"), Path: p, segs: refSegments(p)}
}

type failure struct {
	Class     string  `json:"class"`
	Signature string  `json:"signature"`
	Detail    string  `json:"detail"`
	Entries   []entry `json:"entries"`
	Order     []int   `json:"order"`
	Seed      uint64  `json:"order_seed"`
}

var stats = struct {
	lists, evals, withOverlap, withTriplicate int
	distinct                                  map[uint64]bool
	samples                                   [][]entry
}{distinct: map[uint64]bool{}}

// evaluate runs FindConflicts on the list in the given order and returns the
// set of flagged identities, or a failure.
func evaluate(entries []entry, order []int, seed uint64) (map[int]bool, *failure) {
	recv := make([]*metadata.ReceiverMeta, len(entries))
	byPtr := map[*metadata.ReceiverMeta]int{}
	ctrl := &metadata.ControllerMeta{}
	list := make([]paths.RouteEntry, 0, len(entries))
	for _, ix := range order {
		e := entries[ix]
		r := &metadata.ReceiverMeta{}
		r.Name = fmt.Sprintf("r%d", e.ID)
		recv[ix] = r
		byPtr[r] = ix
		list = append(list, paths.RouteEntry{Path: e.Path, Method: e.Verb, Meta: paths.RouteEntryMeta{Controller: ctrl, Receiver: r}})
	}
	verifsim.Configure(&verifsim.Spec{Seed: seed, PerCall: true, All: true})
	conflicts := paths.FindConflicts(list)
	flagged := map[int]bool{}
	mk := func(class, detail string) *failure {
		return &failure{Class: class, Signature: "C15|" + class, Detail: detail, Entries: entries, Order: order, Seed: seed}
	}
	for _, c := range conflicts {
		a, okA := byPtr[c.A.Meta.Receiver]
		b, okB := byPtr[c.B.Meta.Receiver]
		if !okA || !okB {
			return nil, mk("unsound-unknown-entry", fmt.Sprintf("conflict %q names an entry that is not in the list", c.Reason))
		}
		ea, eb := entries[a], entries[b]
		if a == b {
			return nil, mk("unsound-same-entry", fmt.Sprintf("conflict names entry #%d (%s %s) against itself", ea.ID, ea.Verb, ea.Path))
		}
		if ea.Verb != eb.Verb {
			return nil, mk("unsound-different-verbs", fmt.Sprintf("conflict between #%d %s %s and #%d %s %s", ea.ID, ea.Verb, ea.Path, eb.ID, eb.Verb, eb.Path))
		}
		if !overlap(ea.segs, eb.segs) {
			return nil, mk("unsound-no-overlap", fmt.Sprintf("conflict between #%d %s %s and #%d %s %s, which cannot match a common path", ea.ID, ea.Verb, ea.Path, eb.ID, eb.Verb, eb.Path))
		}
		flagged[a], flagged[b] = true, true
	}
	for i, e := range entries {
		need := false
		for j, f := range entries {
			if i != j && e.Verb == f.Verb && overlap(e.segs, f.segs) {
				need = true
				break
			}
		}
		if need && !flagged[i] {
			return nil, mk("incomplete", fmt.Sprintf("entry #%d (%s %s) overlaps another same-verb entry but is named in no reported conflict", e.ID, e.Verb, e.Path))
		}
	}
	return flagged, nil
}

func setStr(m map[int]bool) string {
	var ks []int
	for k := range m {
		ks = append(ks, k)
	}
	sort.Ints(ks)
	return fmt.Sprint(ks)
}

func runList(t *rapid.T) {
	entries := rapid.SliceOfN(entryGen, 0, 8).Draw(t, "entries")
	n := len(entries)
	for i := range entries {
		entries[i].ID = i
	}
	if os.Getenv("VERIF_FILTER") != "" {
		// workload filter for a known finding: no verb+template may occur three times
		cnt := map[string]int{}
		for _, e := range entries {
			cnt[e.Verb+" "+strings.Join(e.segs, "/")]++
		}
		for _, c := range cnt {
			if c >= 3 && strings.Contains(os.Getenv("VERIF_FILTER"), "triplicate") {
				t.Skip("filtered: triplicate")
			}
		}
	}
	ident := make([]int, n)
	rev := make([]int, n)
	for i := range ident {
		ident[i] = i
		rev[i] = n - 1 - i
	}
	orders := [][]int{ident, rev}
	for k := 0; k < 3 && n > 1; k++ {
		orders = append(orders, rapid.Permutation(ident).Draw(t, "perm"))
	}
	seeds := []uint64{rapid.Uint64Range(0, 1<<20).Draw(t, "order1"), rapid.Uint64Range(0, 1<<20).Draw(t, "order2")}
	var first map[int]bool
	fail := func(f *failure) {
		b, _ := json.Marshal(f)
		t.Fatalf("VERIF-FAIL %s", b)
	}
	for _, ord := range orders {
		for _, sd := range seeds {
			flagged, f := evaluate(entries, ord, sd)
			stats.evals++
			if f != nil {
				fail(f)
			}
			if first == nil {
				first = flagged
			} else if setStr(first) != setStr(flagged) {
				fail(&failure{Class: "order-dependent", Signature: "C15|order-dependent",
					Detail:  fmt.Sprintf("flagged set %s under the first order vs %s under order %v (seed %d)", setStr(first), setStr(flagged), ord, sd),
					Entries: entries, Order: ord, Seed: sd})
			}
		}
	}
	stats.lists++
	if len(first) > 0 {
		stats.withOverlap++
		if len(stats.samples) < 3 && len(entries) >= 3 {
			stats.samples = append(stats.samples, entries)
		}
	}
	cnt := map[string]int{}
	for _, e := range entries {
		k := e.Verb + " " + strings.Join(e.segs, "/")
		cnt[k]++
		if cnt[k] == 3 {
			stats.withTriplicate++
		}
	}
	var h uint64 = 14695981039346656037
	for _, e := range entries {
		for _, c := range []byte(e.Verb + " " + e.Path + "\n") {
			h = (h ^ uint64(c)) * 1099511628211
		}
	}
	stats.distinct[h] = true
}

func TestConflictSim(t *testing.T) {
	defer func() {
		if out := os.Getenv("VERIF_STATS_OUT"); out != "" {
			b, _ := json.Marshal(map[string]any{"lists": stats.lists, "evaluations": stats.evals, "lists_with_overlap": stats.withOverlap,
				"lists_with_triplicate": stats.withTriplicate, "distinct_lists": len(stats.distinct), "samples": stats.samples})
			os.WriteFile(out, b, 0o644)
		}
	}()
	rapid.Check(t, runList)
}
