package simrt

import (
	"bytes"
	"context"
	"encoding/json"
	"fmt"
	"io"
	"net/http"
	"net/http/httptest"
	"os"
	"sort"
	"strings"

	"github.com/gin-gonic/gin"
	"github.com/go-chi/chi/v5"
	"github.com/gofiber/fiber/v2"
	"github.com/gorilla/mux"
	"github.com/labstack/echo/v4"

	"simbatch/projgen"
)

// ProjectReg is filled in by the generated glue of one project.
type ProjectReg struct {
	Name  string
	Gin   func(*gin.Engine)
	Echo  func(*echo.Echo)
	Mux   func(*mux.Router)
	Chi   func(*chi.Mux)
	Fiber func(*fiber.App)
	Setup func() // registers the probe middlewares / custom validator on all five packages
}

var registry = map[string]*ProjectReg{}

func Register(r *ProjectReg) { registry[r.Name] = r }

var EngineNames = []string{"gin", "echo", "mux", "chi", "fiber"}

type node struct {
	engine string
	h      http.Handler
	app    *fiber.App
	regErr string
}

func buildNodes(reg *ProjectReg) map[string]*node {
	gin.SetMode(gin.ReleaseMode)
	out := map[string]*node{}
	mk := func(engine string, f func(n *node)) {
		n := &node{engine: engine}
		func() {
			defer func() {
				if r := recover(); r != nil {
					n.regErr = fmt.Sprint(r)
				}
			}()
			f(n)
		}()
		out[engine] = n
	}
	mk("gin", func(n *node) { e := gin.New(); reg.Gin(e); n.h = e })
	mk("echo", func(n *node) { e := echo.New(); reg.Echo(e); n.h = e })
	mk("mux", func(n *node) { r := mux.NewRouter(); reg.Mux(r); n.h = r })
	mk("chi", func(n *node) { r := chi.NewRouter(); reg.Chi(r); n.h = r })
	mk("fiber", func(n *node) {
		a := fiber.New(fiber.Config{DisableStartupMessage: true})
		// fiber runs handlers on fasthttp's goroutine: an unrecovered panic there would kill the whole
		// batch process. The harness records it as the request's outcome instead.
		a.Use(func(c *fiber.Ctx) (err error) {
			defer func() {
				if r := recover(); r != nil {
					if s := active; s != nil {
						s.event("HandlerPanic", fmt.Sprint(r))
					}
					err = c.Status(599).SendString("handler panic")
				}
			}()
			return c.Next()
		})
		reg.Fiber(a)
		n.app = a
	})
	return out
}

// chunkReader delivers the body in the planned chunk sizes; every Read is a yield point.
type chunkReader struct {
	data   []byte
	chunks []int
	i      int
	quiet  bool
}

func (c *chunkReader) Read(p []byte) (int, error) {
	if len(c.data) == 0 {
		return 0, io.EOF
	}
	n := len(c.data)
	if c.i < len(c.chunks) && c.chunks[c.i] < n {
		n = c.chunks[c.i]
	}
	c.i++
	if n > len(p) {
		n = len(p)
	}
	if s := active; s != nil && s.cur != nil && !c.quiet {
		s.event("BodyRead", fmt.Sprint(n))
		s.yield("body")
	}
	copy(p, c.data[:n])
	c.data = c.data[n:]
	return n, nil
}

func serve(n *node, t *Task) {
	plan := t.Plan
	bodyText := plan.Body
	for _, q := range plan.Quirks {
		if q == "extra-json-field" && strings.HasPrefix(bodyText, "{") && strings.HasSuffix(bodyText, "}") && strings.Contains(plan.CType, "json") {
			// a member the declared type does not have
			inner := strings.TrimSpace(bodyText[1 : len(bodyText)-1])
			if inner != "" {
				inner += ","
			}
			bodyText = "{" + inner + `"zz_unknown":{"a":[1,2]}}`
		}
	}
	var body io.Reader
	if bodyText != "" {
		body = &chunkReader{data: []byte(bodyText), chunks: plan.Chunks, quiet: n.engine == "fiber"}
	}
	target, ctype := plan.URL, plan.CType
	var extraHeader bool
	for _, q := range plan.Quirks {
		switch q {
		case "ctype-charset":
			if ctype != "" {
				ctype += "; charset=utf-8"
			}
		case "extra-query":
			if strings.Contains(target, "?") {
				target += "&zz_unrelated=1"
			} else {
				target += "?zz_unrelated=1"
			}
		case "extra-header":
			extraHeader = true
		case "no-ctype":
			ctype = ""
		case "dup-query-same":
			// the first scalar query parameter once more, with the same value
			if plan.DupQuery != "" {
				target += "&" + plan.DupQuery
			}
		}
	}
	req := httptest.NewRequest(plan.Verb, "http://sim.local"+target, body)
	if bodyText != "" {
		req.ContentLength = int64(len(bodyText))
		if plan.UnknownLength {
			req.ContentLength = -1
			req.TransferEncoding = []string{"chunked"}
		}
	}
	if plan.CancelledRequest {
		ctx, cancel := context.WithCancel(req.Context())
		cancel()
		req = req.WithContext(ctx)
	}
	req.Header.Set("X-Sim-Req", plan.ID)
	if ctype != "" {
		req.Header.Set("Content-Type", ctype)
	}
	if extraHeader {
		req.Header.Set("X-Zz-Unrelated", "1")
	}
	for _, q := range plan.Quirks {
		if q == "dup-header-same" && len(plan.DupHeader) == 2 {
			// the first scalar header parameter once more, as a second field line with the same value
			req.Header.Add(plan.DupHeader[0], plan.DupHeader[1])
		}
	}
	for _, h := range plan.Headers {
		req.Header.Add(h[0], h[1])
	}
	if n.app != nil {
		resp, err := n.app.Test(req, -1)
		if err != nil {
			t.Panic = "fiber app.Test: " + err.Error()
			return
		}
		t.Status = resp.StatusCode
		t.Body, _ = io.ReadAll(resp.Body)
		resp.Body.Close()
	} else {
		rec := httptest.NewRecorder()
		n.h.ServeHTTP(rec, req)
		t.Status = rec.Code
		t.Body = rec.Body.Bytes()
	}
	if s := active; s != nil {
		s.event("Response", fmt.Sprint(t.Status))
	}
}

// ------------------------------------------------------------------ outcome

type Call struct {
	Op   string   `json:"op"`
	Args []string `json:"args"`
}

type Outcome struct {
	Engine string  `json:"engine"`
	Class  string  `json:"class"` // invoked | refused | 422 | not-served | error | crashed
	Calls  []Call  `json:"calls,omitempty"`
	Status int     `json:"status"`
	Body   string  `json:"body,omitempty"`
	Events []Event `json:"events,omitempty"`
	Panic  string  `json:"panic,omitempty"`
}

func outcomeOf(engine string, t *Task) Outcome {
	o := Outcome{Engine: engine, Status: t.Status, Events: t.Events, Panic: t.Panic}
	refused, authAsked := false, false
	for _, e := range t.Events {
		switch e.Kind {
		case "ControllerCall":
			op, rest, _ := strings.Cut(e.Detail, " ")
			var args []string
			json.Unmarshal([]byte(rest), &args)
			o.Calls = append(o.Calls, Call{Op: op, Args: args})
		case "HandlerPanic":
			o.Panic = e.Detail
		case "AuthCheck":
			authAsked = true
		case "AuthResult":
			if strings.HasPrefix(e.Detail, "refuse") {
				refused = true
			}
		}
	}
	body := strings.TrimSpace(string(t.Body))
	if body != "" {
		if nb := normJSON(body); !strings.HasPrefix(nb, "INVALID-JSON:") {
			body = nb
		}
	}
	o.Body = body
	switch {
	case t.Panic != "" || o.Panic != "":
		o.Class = "crashed"
	case len(o.Calls) > 0:
		o.Class = "invoked"
	case t.Status == 422:
		o.Class = "422"
	case refused:
		o.Class = "refused"
	case !authAsked && hasNoHandlerEvent(t.Events):
		o.Class = "not-served"
	default:
		o.Class = "error"
	}
	return o
}

func hasNoHandlerEvent(evs []Event) bool {
	for _, e := range evs {
		switch e.Kind {
		case "Response", "BodyRead":
		default:
			return false
		}
	}
	return true
}

// --------------------------------------------------------------- violations

type Violation struct {
	Property  string     `json:"property"`
	Signature string     `json:"signature"`
	Class     string     `json:"class"`
	Message   string     `json:"message"`
	Project   string     `json:"project"`
	Engine    string     `json:"engine,omitempty"`
	Group     []*ReqPlan `json:"group"`
	Focus     string     `json:"focus"` // id of the plan the violation is about
	SchedSeed uint64     `json:"sched_seed"`
	Outcomes  []Outcome  `json:"outcomes,omitempty"`
	Dim        string    `json:"dim,omitempty"`        // C12: the dimension the replicas disagree on
	Concurrent bool      `json:"concurrent,omitempty"` // reproduces only with the other requests in flight
	// Broken: the (engine -> routes) pairs that were already excluded when this violation was found
	Broken map[string][]int `json:"broken,omitempty"`
}

// shapeTags are the structural tags of the addressed route template (stable finding identity).
func shapeTags(p *ReqPlan) string {
	var tags []string
	for _, t := range p.Tags {
		switch t {
		case "doubled-slash", "no-leading-slash", "root", "trailing-slash", "slash-twin", "param", "hyphen-param", "plain",
			"shadows-earlier-param", "shadows-later-param", "has-literal-sibling":
			tags = append(tags, t)
		}
	}
	sort.Strings(tags)
	return strings.Join(tags, ",")
}

func reqClass(p *ReqPlan) string {
	tags := append([]string(nil), p.Tags...)
	sort.Strings(tags)
	return p.Class + "[" + strings.Join(tags, ",") + "]"
}

func paramSummary(p *ReqPlan) string {
	var parts []string
	for _, pp := range p.Params {
		if pp.Mode != "send" {
			parts = append(parts, pp.Loc+"/"+pp.TypeClass+"/"+pp.Mode)
		}
	}
	return strings.Join(parts, ";")
}

type judge struct {
	proj   *projgen.Project
	routes []projgen.Route
	tag    string
	out    []Violation
	stats  *Stats
	// broken[engine][route]: the engine does not serve this annotated route at all (reported once under
	// C02); requests derived from it are no longer executed on that engine, so one root cause does not
	// cascade into the other oracles
	broken map[string]map[int]bool
}

func (j *judge) markBroken(engine string, route int) {
	if j.broken == nil {
		j.broken = map[string]map[int]bool{}
	}
	if j.broken[engine] == nil {
		j.broken[engine] = map[int]bool{}
	}
	j.broken[engine][route] = true
}

func overlapTag(p *ReqPlan) string {
	for _, t := range p.Tags {
		switch t {
		case "shadows-earlier-param", "shadows-later-param":
			return t
		}
	}
	return ""
}

func (j *judge) isBroken(engine string, p *ReqPlan) bool {
	b := j.broken[engine]
	return b != nil && (b[p.BaseRoute] || (p.Expect.Route >= 0 && b[p.Expect.Route]))
}

func (j *judge) add(prop, sig, class, msg string, engine string, group []*ReqPlan, focus *ReqPlan, seed uint64, outs []Outcome) {
	v := Violation{Property: prop, Signature: sig, Class: class, Message: msg, Project: j.tag, Engine: engine, Group: group, Focus: focus.ID, SchedSeed: seed, Outcomes: outs}
	for e, rs := range j.broken {
		for r := range rs {
			if (class == "not-served" || class == "misrouted" || class == "wrong-method") && e == engine && r == focus.Expect.Route {
				continue // this violation IS that pair's finding
			}
			if v.Broken == nil {
				v.Broken = map[string][]int{}
			}
			v.Broken[e] = append(v.Broken[e], r)
		}
	}
	for e := range v.Broken {
		sort.Ints(v.Broken[e])
	}
	j.out = append(j.out, v)
}

func altKeys(rt projgen.Route) map[string]bool {
	m := map[string]bool{}
	for _, a := range rt.Security {
		m[checkKey(a.Scheme, a.Scopes)] = true
	}
	return m
}

// judgePlan applies the C02, C03 and C05 oracles to one (plan, engine) outcome.
func (j *judge) judgePlan(plan *ReqPlan, o Outcome, group []*ReqPlan, seed uint64) {
	ex := plan.Expect
	if why := ex.PolicyFor[o.Engine]; why != "" && ex.Policy == "" {
		ex.Policy = why // judged as a framework-policy shape on this engine only
	}
	outs := []Outcome{o}
	for _, e := range o.Events {
		if e.Kind == "CrossTalk" {
			j.add("C02", "C02|"+o.Engine+"|cross-talk", "cross-talk", e.Detail, o.Engine, group, plan, seed, outs)
		}
	}
	callbackPanics := plan.AuthDefault.Kind == "panic"
	for _, d := range plan.Auth {
		if d.Kind == "panic" {
			callbackPanics = true
		}
	}
	if o.Class == "crashed" && !callbackPanics {
		// a panicking handler is neither "422 without invoking the method" nor a delivered call
		j.add("C05", "", "handler-panic", fmt.Sprintf("%s %s (%s): the generated handler panicked instead of answering: %s", plan.Verb, plan.URL, reqClass(plan), clip(o.Panic, 300)), o.Engine, group, plan, seed, outs)
		return
	}
	// ---------------- C02: dispatch
	if ex.Policy == "" {
		switch {
		case ex.Route < 0:
			if len(o.Calls) > 0 {
				class := "served-unannotated"
				// is the path an extension of the reached route's template, which ends in a parameter?
				pathOnly, _, _ := strings.Cut(plan.URL, "?")
				reqSegs := strings.Split(strings.TrimPrefix(pathOnly, "/"), "/")
				for ri := range j.routes {
					rr := j.routes[ri]
					if j.proj.OpPrefix+rr.OpID != o.Calls[0].Op || len(rr.Segs) == 0 || !projgen.IsParamSeg(rr.Segs[len(rr.Segs)-1]) || len(reqSegs) <= len(rr.Segs) {
						continue
					}
					prefixOK := true
					for k, ts := range rr.Segs[:len(rr.Segs)-1] {
						if !projgen.IsParamSeg(ts) && ts != reqSegs[k] {
							prefixOK = false
						}
					}
					if prefixOK {
						class = "served-longer-path-below-trailing-param"
					}
				}
				j.add("C02", "", class,
					fmt.Sprintf("%s %s is not an annotated verb/path but reached %s", plan.Verb, plan.URL, o.Calls[0].Op), o.Engine, group, plan, seed, outs)
			}
		default:
			// every request addressed to an annotated route must be handled by THAT route's handler
			class, detail := "", ""
			switch {
			case o.Class == "not-served":
				class, detail = "not-served", fmt.Sprintf("the router does not serve it (status %d)", o.Status)
			case len(o.Calls) > 0 && o.Calls[0].Op != ex.OpID:
				class, detail = "wrong-method", "it reached "+o.Calls[0].Op
				if overlapTag(plan) != "" {
					class = "misrouted"
				}
			case overlapTag(plan) != "" && ex.Outcome == "invoked" && plan.Class == "valid" && o.Class != "invoked":
				class, detail = "misrouted", fmt.Sprintf("the router handed it to another template (outcome %s, status %d)", o.Class, o.Status)
			}
			if class != "" && class != "not-served" && o.Engine == "fiber" {
				for _, t := range plan.Tags {
					if t == "hyphen-param" {
						// fiber splits ":order-ref" into ":order" + "-ref": the template as annotated does not exist on
						// fiber; whatever answered is another pattern. Same root cause as the plain 404.
						class, detail = "not-served", "fiber does not serve the template as annotated ("+detail+")"
					}
				}
			}
			if len(o.Calls) > 1 {
				j.add("C02", "", "invoked-twice", fmt.Sprintf("%s %s invoked %d controller methods", plan.Verb, plan.URL, len(o.Calls)), o.Engine, group, plan, seed, outs)
			}
			if class != "" {
				j.add("C02", "", class,
					fmt.Sprintf("%s %s addresses annotated route %s (template %s) but %s", plan.Verb, plan.URL, ex.OpID, j.routes[ex.Route].Path, detail), o.Engine, group, plan, seed, outs)
				if len(group) == 1 && plan.BaseRoute == ex.Route && !strings.HasPrefix(plan.Class, "stray") {
					j.markBroken(o.Engine, ex.Route)
				}
				return // one root cause: the other oracles are not applied to a request the router mis-dispatched
			}
		}
	}
	if ex.Route < 0 {
		return
	}
	rt := j.routes[ex.Route]
	// C03 is judged against the route whose method actually ran (if one did): the gate that matters is
	// that method's. For framework-policy shapes without an invocation the addressed route is not known.
	otherRouteRan := false
	if len(o.Calls) > 0 {
		for ri := range j.routes {
			if j.proj.OpPrefix+j.routes[ri].OpID == o.Calls[0].Op {
				rt = j.routes[ri]
				otherRouteRan = ri != ex.Route
			}
		}
	} else if ex.Policy != "" {
		return
	}
	// ---------------- C03: online ordering invariant over the event history
	alts := altKeys(rt)
	approved := false
	for _, e := range o.Events {
		switch e.Kind {
		case "AuthCheck":
			if !alts[e.Detail] {
				j.add("C03", "C03|"+o.Engine+"|foreign-check", "foreign-check",
					fmt.Sprintf("route %s asked the callback about %q which is not one of its effective alternatives %v", ex.OpID, e.Detail, keysOf(alts)), o.Engine, group, plan, seed, outs)
			}
		case "AuthResult":
			if strings.HasPrefix(e.Detail, "approve ") && alts[strings.TrimPrefix(e.Detail, "approve ")] {
				approved = true
			}
		case "BodyRead", "ValidatorCall", "InputValidationMW", "BeforeOpMW", "ControllerCall":
			if len(alts) > 0 && !approved {
				j.add("C03", fmt.Sprintf("C03|%s|%s-before-approval", o.Engine, e.Kind), "ungated",
					fmt.Sprintf("%s of %s happened (event %d) before any security alternative of %v was approved", e.Kind, ex.OpID, e.Seq, keysOf(alts)), o.Engine, group, plan, seed, outs)
				return
			}
		}
	}
	if otherRouteRan {
		return // (framework-policy shape) another route's method ran; its own gate was just checked
	}
	if ex.Outcome == "refused" {
		if o.Class == "not-served" {
			return // the route is not served at all: C02's business
		}
		if o.Class != "refused" {
			j.add("C03", fmt.Sprintf("C03|%s|refused-but-%s", o.Engine, o.Class), "refusal-not-honoured",
				fmt.Sprintf("every alternative of %s was refused but the outcome is %s (status %d)", ex.OpID, o.Class, o.Status), o.Engine, group, plan, seed, outs)
			return
		}
		okStatus := false
		for _, s := range ex.RefuseStatuses {
			if s == o.Status {
				okStatus = true
			}
		}
		if !okStatus {
			j.add("C03", "C03|"+o.Engine+"|refusal-status", "refusal-status",
				fmt.Sprintf("refused request answered %d, the callback returned %v", o.Status, ex.RefuseStatuses), o.Engine, group, plan, seed, outs)
		} else {
			// payload: if every refusal with this status carried a payload, the body must be one of them
			var payloads []string
			all := true
			for _, a := range rt.Security {
				d, ok := plan.Auth[checkKey(a.Scheme, a.Scopes)]
				if !ok {
					d = plan.AuthDefault
				}
				if d.Kind == "refuse" && d.Status == o.Status {
					if d.Payload == "" {
						all = false
					} else {
						payloads = append(payloads, normJSON(d.Payload))
					}
				}
			}
			if all && len(payloads) > 0 {
				hit := false
				for _, p := range payloads {
					if p == o.Body {
						hit = true
					}
				}
				if !hit {
					j.add("C03", "C03|"+o.Engine+"|refusal-payload", "refusal-payload",
						fmt.Sprintf("refusal carried custom payload %v but the body is %s", payloads, clip(o.Body, 200)), o.Engine, group, plan, seed, outs)
				}
			}
		}
		return
	}
	if ex.Policy != "" || o.Class == "refused" {
		return
	}
	// ---------------- C05: binding and requiredness (authorised requests only)
	loc := paramSummary(plan)
	switch ex.Outcome {
	case "invoked":
		if o.Class != "invoked" {
			if o.Class == "not-served" {
				return // C02's business
			}
			j.add("C05", fmt.Sprintf("C05|%s|%s|well-formed-but-%s", o.Engine, valueSig(plan), o.Class), "well-formed-rejected",
				fmt.Sprintf("well-formed request %s %s to %s answered %d (%s) without invoking the method; body %s", plan.Verb, plan.URL, ex.OpID, o.Status, o.Class, clip(o.Body, 240)), o.Engine, group, plan, seed, outs)
			return
		}
		got := o.Calls[0].Args
		if len(got) != len(ex.Args) {
			j.add("C05", fmt.Sprintf("C05|%s|arity", o.Engine), "arity", fmt.Sprintf("%s received %d arguments, signature has %d", ex.OpID, len(got), len(ex.Args)), o.Engine, group, plan, seed, outs)
			return
		}
		for i := range got {
			if ex.Args[i] == "?" || ex.Args[i] == got[i] {
				continue
			}
			prm := rt.M.Params[i]
			vc := "ctx"
			for _, pp := range plan.Params {
				if pp.Name == prm.GoName && len(pp.Vals) > 0 {
					vc = pp.Vals[0].Class
				}
			}
			j.add("C05", fmt.Sprintf("C05|%s|%s|%s|%s|wrong-value", o.Engine, prm.Loc, typeClass(prm.Type), vc), "wrong-value",
				fmt.Sprintf("%s parameter %d (%s, %s) should receive %s but received %s", ex.OpID, i, prm.GoName, prm.Loc, clip(ex.Args[i], 200), clip(got[i], 200)), o.Engine, group, plan, seed, outs)
		}
	case "422":
		if o.Class != "422" {
			if o.Class == "not-served" {
				return
			}
			j.add("C05", fmt.Sprintf("C05|%s|%s|expected-422-got-%s", o.Engine, loc, o.Class), "bad-request-accepted",
				fmt.Sprintf("%s %s (%s) should be answered 422 without invoking %s; outcome %s status %d", plan.Verb, plan.URL, ex.Why, ex.OpID, o.Class, o.Status), o.Engine, group, plan, seed, outs)
		}
	}
}

func valueSig(plan *ReqPlan) string {
	var parts []string
	for _, pp := range plan.Params {
		for _, v := range pp.Vals {
			if v.Class != "plain" && v.Class != "json" && v.Class != "enum-member" {
				parts = append(parts, pp.Loc+"/"+pp.TypeClass+"/"+v.Class)
			}
		}
	}
	sort.Strings(parts)
	if len(parts) > 3 {
		parts = parts[:3]
	}
	if len(parts) == 0 {
		return plan.Class
	}
	return strings.Join(parts, ";")
}

func keysOf(m map[string]bool) []string {
	var ks []string
	for k := range m {
		ks = append(ks, k)
	}
	sort.Strings(ks)
	return ks
}

// judgeReplicas applies the C12 oracle: the five nodes must agree.
func (j *judge) judgeReplicas(plan *ReqPlan, outs map[string]Outcome, group []*ReqPlan, seed uint64) {
	if plan.Expect.Route < 0 || plan.Expect.Policy != "" {
		return
	}
	var engines []string
	for e := range outs {
		if j.isBroken(e, plan) {
			continue // this engine does not serve the route at all: reported once under C02
		}
		if plan.Expect.PolicyFor[e] != "" {
			continue // framework-policy shape for this engine
		}
		engines = append(engines, e)
	}
	sort.Strings(engines)
	if len(engines) < 2 {
		return
	}
	key := func(o Outcome) (string, string, string, string) {
		calls, _ := json.Marshal(o.Calls)
		return o.Class, string(calls), fmt.Sprint(o.Status), o.Body
	}
	names := []string{"outcome", "call", "status", "body"}
	for dim := 0; dim < 4; dim++ {
		count := map[string][]string{}
		for _, e := range engines {
			a, b, c, d := key(outs[e])
			v := []string{a, b, c, d}[dim]
			count[v] = append(count[v], e)
		}
		if len(count) <= 1 {
			continue
		}
		// plurality (ties broken by value text for determinism)
		best, haveBest := "", false
		for v, es := range count {
			if !haveBest || len(es) > len(count[best]) || (len(es) == len(count[best]) && v < best) {
				best, haveBest = v, true
			}
		}
		var dissent []string
		var detail []string
		for v, es := range count {
			if v != best {
				dissent = append(dissent, es...)
			}
			detail = append(detail, fmt.Sprintf("%v -> %s", es, clip(v, 160)))
		}
		sort.Strings(dissent)
		sort.Strings(detail)
		var all []Outcome
		for _, e := range engines {
			all = append(all, outs[e])
		}
		j.add("C12", "", "replicas-disagree",
			fmt.Sprintf("%s %s (%s): engines disagree on %s: %s", plan.Verb, plan.URL, reqClass(plan), names[dim], strings.Join(detail, " ; ")), strings.Join(dissent, "+"), group, plan, seed, all)
		j.out[len(j.out)-1].Dim = names[dim]
		return // one dimension per request: later dimensions usually follow from the first
	}
}

func clip(s string, n int) string {
	if len(s) > n {
		return s[:n] + "…"
	}
	return s
}

// ---------------------------------------------------------------- execution

type Stats struct {
	Requests       int            `json:"requests"`         // plans executed (per engine)
	Plans          int            `json:"plans"`
	Groups         int            `json:"groups"`
	ConcurrentGroups int          `json:"concurrent_groups"`
	Parks          int            `json:"parks"`
	MaxParked      int            `json:"max_parked_together"`
	Classes        map[string]int `json:"request_classes"`
	Faults         map[string]int `json:"fault_kinds_fired"`
	Outcomes       map[string]int `json:"outcomes"`
	Probes         map[string]int `json:"probes"`
	EventKinds     map[string]int `json:"event_kinds"`
	Distinct       map[string]bool `json:"-"`
	DistinctN      int            `json:"distinct_nontrivial"`
	Interleavings  map[string]bool `json:"-"`
	InterleavingsN int            `json:"distinct_interleavings"`
	Unjudged       int            `json:"unjudged_policy_requests"`
	RegFailures    []string       `json:"registration_failures,omitempty"`
	Samples        []any          `json:"samples"`
}

func newStats() *Stats {
	return &Stats{Classes: map[string]int{}, Faults: map[string]int{}, Outcomes: map[string]int{}, Probes: map[string]int{}, EventKinds: map[string]int{}, Distinct: map[string]bool{}, Interleavings: map[string]bool{}}
}

// execGroup runs a group of plans concurrently on every engine node and judges them.
func (j *judge) execGroup(nodes map[string]*node, group []*ReqPlan, seed uint64) {
	perPlan := make([]map[string]Outcome, len(group))
	for i := range perPlan {
		perPlan[i] = map[string]Outcome{}
	}
	for _, engine := range EngineNames {
		n := nodes[engine]
		if n == nil || n.regErr != "" {
			continue
		}
		skip := false
		for _, p := range group {
			if j.isBroken(engine, p) {
				skip = true
			}
		}
		if skip {
			j.stats.Probes["skipped: engine does not serve the route at all"]++
			continue
		}
		tasks := make([]*Task, len(group))
		for i, p := range group {
			tasks[i] = &Task{ID: i, Plan: p}
		}
		rng := projgen.Stream(seed, "sched", 0)
		s := RunGroup(rng, tasks, func(t *Task) { serve(n, t) })
		j.stats.Parks += s.Parks
		if s.MaxParkedTogether > j.stats.MaxParked {
			j.stats.MaxParked = s.MaxParkedTogether
		}
		if len(group) > 1 {
			j.stats.Interleavings[fmt.Sprint(s.Trace)] = true
			if s.MaxParkedTogether >= 2 {
				j.stats.Probes["two requests parked at once"]++
			}
		}
		for i, t := range tasks {
			o := outcomeOf(engine, t)
			perPlan[i][engine] = o
			j.stats.Requests++
			j.stats.Outcomes[o.Class]++
			for _, ev := range o.Events {
				j.stats.EventKinds[ev.Kind]++
			}
			j.judgePlan(group[i], o, group, seed)
		}
	}
	for i, p := range group {
		j.judgeReplicas(p, perPlan[i], group, seed)
		j.account(p, perPlan[i], len(group))
	}
	j.stats.Groups++
	if len(group) > 1 {
		j.stats.ConcurrentGroups++
	}
}

func (j *judge) account(p *ReqPlan, outs map[string]Outcome, groupSize int) {
	st := j.stats
	st.Plans++
	st.Classes[p.Class]++
	if p.Expect.Policy != "" {
		st.Unjudged++
	}
	nontrivial := groupSize > 1
	for _, pp := range p.Params {
		if pp.Mode != "send" {
			st.Faults["param-"+pp.Mode]++
			nontrivial = true
		}
		for _, v := range pp.Vals {
			if v.Class != "plain" && v.Class != "json" {
				st.Faults["value-"+v.Class]++
				nontrivial = true
			}
		}
	}
	if len(p.Chunks) > 0 {
		st.Faults["chunked-body"]++
		nontrivial = true
	}
	for _, q := range p.Quirks {
		st.Faults["client-"+q]++
		nontrivial = true
	}
	if strings.HasPrefix(p.Class, "stray") {
		st.Faults["stray-request"]++
		nontrivial = true
	}
	for _, d := range p.Auth {
		if d.Kind == "refuse" {
			st.Faults["auth-refusal"]++
			nontrivial = true
			if d.Payload != "" {
				st.Faults["auth-custom-payload"]++
			}
		}
		if d.Kind == "derive" {
			st.Faults["auth-derived-context"]++
		}
	}
	if p.AuthDefault.Kind == "derive" {
		st.Faults["auth-derived-context"]++
	}
	if p.Ctl.Err != "" {
		st.Faults["controller-error"]++
		nontrivial = true
	}
	if p.Ctl.Status != 0 {
		st.Faults["controller-set-status"]++
	}
	for _, o := range outs {
		if o.Class == "refused" && p.Expect.Outcome == "refused" {
			hasApprove := false
			for _, e := range o.Events {
				if e.Kind == "AuthResult" && strings.HasPrefix(e.Detail, "approve") {
					hasApprove = true
				}
			}
			_ = hasApprove
		}
		for _, c := range o.Calls {
			for _, a := range c.Args {
				if strings.HasPrefix(a, "ctx=tok-") {
					st.Probes["derived context reached the controller"]++
				}
			}
		}
		break
	}
	if p.Expect.Outcome == "refused" && paramSummary(p) != "" {
		st.Probes["unauthorised AND unparseable request"]++
	}
	for _, t := range p.Tags {
		if t == "hidden" {
			st.Probes["hidden route requested"]++
		}
	}
	if nontrivial {
		st.Distinct[fmt.Sprintf("%s|%s|%s|%s|%d", j.tag, p.Class, paramSummary(p), valueSig(p), groupSize)] = true
	}
	if len(st.Samples) < 3 && nontrivial && st.Plans%7 == 0 {
		st.Samples = append(st.Samples, p)
	}
}

// --------------------------------------------------------------------- main

type BatchProject struct {
	Tag     string           `json:"tag"`
	Project *projgen.Project `json:"project"`
	SpecOps []SpecOp         `json:"spec_ops"` // operations read from the spec gleece wrote
}

type SpecOp struct {
	Verb string `json:"verb"`
	Path string `json:"path"`
	OpID string `json:"operation_id"`
}

type BatchInput struct {
	Seed     uint64         `json:"seed"`
	Tier     string         `json:"tier"`
	Projects []BatchProject `json:"projects"`
	Replay   *Violation     `json:"replay,omitempty"`
}

type BatchOutput struct {
	Violations []Violation `json:"violations"`
	Stats      *Stats      `json:"stats"`
}

func Main() {
	if len(os.Args) != 3 {
		fmt.Fprintln(os.Stderr, "usage: batch input.json output.json")
		os.Exit(2)
	}
	raw, err := os.ReadFile(os.Args[1])
	if err != nil {
		fmt.Fprintln(os.Stderr, err)
		os.Exit(2)
	}
	var in BatchInput
	if err := json.Unmarshal(raw, &in); err != nil {
		fmt.Fprintln(os.Stderr, err)
		os.Exit(2)
	}
	stats := newStats()
	var all []Violation
	for pi, bp := range in.Projects {
		reg := registry[bp.Tag]
		if reg == nil {
			fmt.Fprintln(os.Stderr, "batch: no glue registered for", bp.Tag)
			os.Exit(2)
		}
		reg.Setup()
		nodes := buildNodes(reg)
		j := &judge{proj: bp.Project, routes: bp.Project.Routes(), tag: bp.Tag, stats: stats}
		for _, e := range EngineNames {
			if nodes[e].regErr != "" {
				stats.RegFailures = append(stats.RegFailures, bp.Tag+"/"+e+": "+nodes[e].regErr)
				dummy := &ReqPlan{ID: bp.Tag + "-reg", Class: "registration"}
				cause := "other"
				if strings.Contains(nodes[e].regErr, "conflicts with existing wildcard") || strings.Contains(nodes[e].regErr, "wildcard") {
					cause = "wildcard-name-conflict"
				}
				dummy.Tags = []string{cause}
				j.add("C02", "", "registration-panic",
					fmt.Sprintf("RegisterRoutes panicked for an accepted project, so this engine serves none of its routes: %s", clip(nodes[e].regErr, 300)), e, []*ReqPlan{dummy}, dummy, 0, nil)
			}
		}
		if in.Replay != nil {
			// restore exactly the exclusions that were in force when the violation was found
			for e, rs := range in.Replay.Broken {
				for _, r := range rs {
					j.markBroken(e, r)
				}
			}
			j.execGroup(nodes, in.Replay.Group, in.Replay.SchedSeed)
		} else {
			j.staticSpecCheck(bp)
			j.explore(nodes, bp, in.Seed, uint64(pi), in.Tier)
		}
		if in.Replay == nil {
			// minimise every violation, then name it by what is left
			limit := 4000
			for i := range j.out {
				if i < limit {
					j.out[i] = j.minimise(nodes, j.out[i])
				}
			}
		}
		for i := range j.out {
			j.out[i].Signature = finalSignature(&j.out[i])
		}
		all = append(all, j.out...)
	}
	stats.DistinctN = len(stats.Distinct)
	stats.InterleavingsN = len(stats.Interleavings)
	out, _ := json.Marshal(BatchOutput{Violations: dedupe(all), Stats: stats})
	var buf bytes.Buffer
	json.Indent(&buf, out, "", " ")
	if err := os.WriteFile(os.Args[2], buf.Bytes(), 0o644); err != nil {
		fmt.Fprintln(os.Stderr, err)
		os.Exit(2)
	}
}

// dedupe keeps the first (smallest group) violation per signature and counts the rest in the message.
func dedupe(vs []Violation) []Violation {
	sort.SliceStable(vs, func(a, b int) bool { return len(vs[a].Group) < len(vs[b].Group) })
	seen := map[string]int{}
	var out []Violation
	for _, v := range vs {
		if i, ok := seen[v.Signature]; ok {
			_ = i
			continue
		}
		seen[v.Signature] = len(out)
		out = append(out, v)
	}
	return out
}

// staticSpecCheck: documented operations == the non-hidden annotated routes (C02's last sentence).
func (j *judge) staticSpecCheck(bp BatchProject) {
	doc := map[string]string{}
	for _, op := range bp.SpecOps {
		doc[op.Verb+" "+op.Path] = op.OpID
	}
	dummy := &ReqPlan{ID: bp.Tag + "-spec", Class: "spec"}
	for _, rt := range j.routes {
		k := rt.M.Verb + " " + rt.Path
		id, ok := doc[k]
		if rt.M.Hidden && ok {
			j.add("C02", "C02|spec|hidden-documented", "hidden-documented", "hidden route "+k+" is documented", "", []*ReqPlan{dummy}, dummy, 0, nil)
		}
		if !rt.M.Hidden && !ok {
			j.add("C02", "C02|spec|served-not-documented", "served-not-documented", "route "+k+" ("+rt.OpID+") is annotated and not hidden but the spec does not document it", "", []*ReqPlan{dummy}, dummy, 0, nil)
		}
		if ok && id != rt.M.Name {
			j.add("C02", "C02|spec|operation-id", "operation-id", "spec documents "+k+" as "+id+", the annotated method is "+rt.M.Name, "", []*ReqPlan{dummy}, dummy, 0, nil)
		}
		delete(doc, k)
	}
	for k, id := range doc {
		j.add("C02", "C02|spec|documented-not-annotated", "documented-not-annotated", "spec documents "+k+" ("+id+") which no annotated route normalises to", "", []*ReqPlan{dummy}, dummy, 0, nil)
	}
}
