// Package simrt is the routersim runtime: a cooperative, seeded, one-token
// scheduler for request tasks, the simulator-owned "other parties"
// (authorization callback, controllers, middlewares, custom validator, request
// body stream), the event history, the reference router/binder models and the
// oracles of C02, C03, C05 and C12. It is compiled, together with the routers
// the real gleece CLI generated for five engines, into one batch binary.
package simrt

import (
	"fmt"
	"sync"
	"time"

	"simbatch/projgen"
)

type Event struct {
	Seq    int    `json:"seq"`
	Task   int    `json:"task"`
	Kind   string `json:"kind"` // AuthCheck AuthResult BodyRead ValidatorCall InputValidationMW BeforeOpMW AfterOpMW OnErrorMW OutputValidationMW ControllerCall Response Park
	Detail string `json:"detail,omitempty"`
}

type yieldMsg struct {
	task *Task
	done bool
}

// Task is one in-flight request on one engine.
type Task struct {
	ID     int
	Plan   *ReqPlan
	resume chan struct{}
	done   bool
	// per-task observations
	Events   []Event
	Status   int
	Body     []byte
	Panic    string
	parkedAt string
}

// Sim runs a group of tasks under one seeded schedule.
type Sim struct {
	rng     *projgen.Rand
	mu      sync.Mutex
	seq     int
	cur     *Task
	yieldCh chan yieldMsg
	Trace   []int // chosen task ids, in order (the schedule)
	Parks   int
	MaxParkedTogether int
}

var active *Sim // exactly one simulation runs at a time in this process

func (s *Sim) event(kind, detail string) {
	s.mu.Lock()
	defer s.mu.Unlock()
	if s.cur == nil {
		return
	}
	s.seq++
	s.cur.Events = append(s.cur.Events, Event{Seq: s.seq, Task: s.cur.ID, Kind: kind, Detail: detail})
}

// yield parks the calling goroutine (acting for the current task) and hands the token back.
func (s *Sim) yield(point string) {
	t := s.cur
	if t == nil {
		return
	}
	t.parkedAt = point
	s.yieldCh <- yieldMsg{task: t}
	<-t.resume
}

// RunGroup executes the tasks' bodies under the cooperative scheduler: exactly
// one task goroutine (or the framework goroutine acting for it) runs at a time,
// tasks switch only at yield points, and the next task is drawn from the PRNG.
func RunGroup(rng *projgen.Rand, tasks []*Task, body func(t *Task)) *Sim {
	s := &Sim{rng: rng, yieldCh: make(chan yieldMsg)}
	active = s
	for _, t := range tasks {
		t.resume = make(chan struct{})
		go func(t *Task) {
			<-t.resume
			func() {
				defer func() {
					if r := recover(); r != nil {
						t.Panic = fmt.Sprint(r)
					}
				}()
				body(t)
			}()
			s.yieldCh <- yieldMsg{task: t, done: true}
		}(t)
	}
	remaining := len(tasks)
	for remaining > 0 {
		var runnable []*Task
		parked := 0
		for _, t := range tasks {
			if !t.done {
				runnable = append(runnable, t)
				if t.parkedAt != "" {
					parked++
				}
			}
		}
		if parked > s.MaxParkedTogether {
			s.MaxParkedTogether = parked
		}
		next := runnable[0]
		if len(runnable) > 1 {
			next = runnable[rng.Intn(len(runnable))]
		}
		s.Trace = append(s.Trace, next.ID)
		s.cur = next
		next.resume <- struct{}{}
		select {
		case m := <-s.yieldCh:
			if m.task != next {
				panic(fmt.Sprintf("simrt: token discipline broken: task %d yielded while task %d held the token", m.task.ID, next.ID))
			}
			if m.done {
				next.done = true
				next.parkedAt = ""
				remaining--
			} else {
				s.Parks++
			}
		case <-time.After(60 * time.Second):
			panic(fmt.Sprintf("simrt: watchdog: task %d (%s %s) neither yielded nor finished", next.ID, next.Plan.Verb, next.Plan.URL))
		}
	}
	s.cur = nil
	active = nil
	return s
}
