package simrt

import (
	"net/url"
	"strings"

	"simbatch/projgen"
)

var authKinds = []string{"refuse-all", "refuse-first", "refuse-last", "random", "derive-all"}
var strayKinds = []string{"other-verb", "extra-segment", "missing-segment", "changed-literal", "other-prefix", "trailing-slash", "case-variant"}

// explore generates the seeded request workload of one project and runs it:
// every plan alone (sequential node), then seeded concurrent groups.
func (j *judge) explore(nodes map[string]*node, bp BatchProject, seed, pidx uint64, tier string) {
	// keyed by the project's tag, not by its position in this process's list: re-running one project of a
	// batch alone reproduces exactly the same plans, groups, schedules and per-node history
	_ = pidx
	r := projgen.Stream(seed, "routersim/plans/"+bp.Tag, 0)
	pl := &planner{p: bp.Project, routes: j.routes, r: r, tag: bp.Tag}
	reps := 1
	if tier == "thorough" {
		reps = 3
	}
	var plans []*ReqPlan
	add := func(p *ReqPlan) {
		if p != nil {
			plans = append(plans, p)
		}
	}
	for ri, rt := range j.routes {
		// (a) one plain well-formed request per annotated route, hidden ones included
		add(pl.build(ri, "valid", nil, false))
		for k := 0; k < 2*reps; k++ {
			// boundary values, spellings, unicode, reserved characters
			p := pl.build(ri, "valid-adventurous", nil, true)
			add(p)
		}
		// value sweep: every value class of every non-body parameter once, all else plain
		for _, prm := range rt.M.Params {
			if prm.Loc == "context" || prm.Loc == "body" || prm.Type.Kind == "enum" {
				continue
			}
			for _, c := range candidates(prm.Type.Prim, prm.Loc) {
				if !c.OK || c.Class == "plain" {
					continue
				}
				if prm.Validate != "" {
					if sat, known := satisfies(prm.Validate, prm.Type.Prim, c.Canon, true); !known || !sat {
						continue
					}
				}
				add(pl.buildForced(ri, "value-sweep", nil, false, map[string][]WireVal{prm.GoName: {c}}))
			}
		}
		// enum parameters: a value that converts to the underlying type but is NOT one of the declared
		// constants. C05's statement does not say whether that "converts" (it depends on the experimental
		// enum flags), so the outcome is not judged - but the five engines must still agree (C12).
		for _, prm := range rt.M.Params {
			if prm.Type.Kind != "enum" || prm.Loc == "body" || prm.Loc == "context" {
				continue
			}
			// member sweep: every declared constant of the enum once, all else plain
			for _, lit := range pl.enumOf(prm.Type) {
				mraw := lit
				if prm.Type.Prim == "string" {
					mraw = strings.Trim(lit, `"`)
				}
				if mc, ok := convert(prm.Type.Prim, mraw); ok {
					add(pl.buildForced(ri, "value-sweep", nil, false, map[string][]WireVal{prm.GoName: {{Raw: mraw, Canon: mc, Class: "enum-member", OK: true}}}))
				}
			}
			raw := "zz-not-a-member"
			if prm.Type.Prim != "string" {
				raw = "97"
			}
			canon, ok := convert(prm.Type.Prim, raw)
			if !ok {
				continue
			}
			p := pl.buildForced(ri, "enum-non-member", nil, false, map[string][]WireVal{prm.GoName: {{Raw: raw, Canon: canon, Class: "enum-non-member", OK: true}}})
			p.Expect.Outcome, p.Expect.Args, p.Expect.Why = "unjudged", nil, "enum value outside the declared constants"
			add(p)
		}
		// damage sweep: every non-converting value of every non-body parameter once
		for _, prm := range rt.M.Params {
			if prm.Loc == "context" || prm.Loc == "body" || prm.Type.Kind == "enum" {
				continue
			}
			for _, gv := range garbled(prm.Type.Prim) {
				if prm.Loc == "header" && strings.TrimSpace(gv.Raw) != gv.Raw {
					continue
				}
				if prm.Loc == "path" && gv.Raw == "" {
					continue
				}
				add(pl.buildForced(ri, "damage-sweep", map[string]string{prm.GoName: "garble"}, false, map[string][]WireVal{prm.GoName: {gv}}))
			}
		}
		// per-parameter damage
		for _, prm := range rt.M.Params {
			if prm.Loc == "context" {
				continue
			}
			for _, mode := range []string{"omit", "garble", "violate", "wrong-location"} {
				if mode == "wrong-location" && (prm.Loc == "body" || prm.Loc == "path") {
					continue
				}
				for k := 0; k < reps; k++ {
					p := pl.build(ri, "damaged", map[string]string{prm.GoName: mode}, false)
					if p.Expect.Outcome == "422" || mode == "omit" || mode == "wrong-location" {
						add(p)
					}
				}
			}
		}
		// client quirks: the same well-formed request with a charset parameter on its content type, an
		// unrelated query key, an unrelated header, its first scalar query key sent twice with the same value,
		// no Content-Type at all (each alone, then the first three together on an adventurous request)
		for _, qk := range []string{"ctype-charset", "extra-query", "extra-header", "dup-query-same", "dup-header-same", "no-ctype", "extra-json-field"} {
			p := pl.build(ri, "valid-quirk", nil, false)
			if qk == "extra-json-field" && !(strings.HasPrefix(p.Body, "{") && strings.Contains(p.CType, "json")) {
				continue
			}
			if (qk == "ctype-charset" || qk == "no-ctype") && p.CType == "" {
				continue
			}
			if qk == "dup-query-same" && p.DupQuery == "" {
				continue
			}
			if qk == "dup-header-same" && len(p.DupHeader) != 2 {
				continue
			}
			p.Quirks = []string{qk}
			if qk == "extra-json-field" {
				// whether a member the declared type does not have is ignored or refused is not decided by C05
				p.Expect.Outcome, p.Expect.Args, p.Expect.Why = "unjudged", nil, "body carries a member the declared type does not have"
			}
			if qk == "no-ctype" {
				// whether a body without a declared media type still "carries" a form field / JSON body is not
				// decided by C05's statement: the outcome is not judged, the five engines must still agree (C12)
				p.Expect.Outcome, p.Expect.Args, p.Expect.Why = "unjudged", nil, "body sent without a Content-Type"
			}
			add(p)
		}
		{
			p := pl.build(ri, "valid-quirk", nil, true)
			p.Quirks = []string{"extra-query", "extra-header"}
			if p.CType != "" {
				p.Quirks = append([]string{"ctype-charset"}, p.Quirks...)
			}
			add(p)
		}
		// body delivered in chunks
		for _, prm := range rt.M.Params {
			if prm.Loc == "body" || prm.Loc == "form" {
				p := pl.build(ri, "valid-chunked", nil, false)
				n := len(p.Body)
				if n > 1 {
					for left := n; left > 0; {
						c := r.Range(1, 1+n/2)
						p.Chunks = append(p.Chunks, c)
						left -= c
					}
					add(p)
					// the same stream without a declared length (chunked transfer coding)
					q := *p
					q.ID = pl.nextID()
					q.UnknownLength = true
					add(&q)
				}
				break
			}
		}
		// authorization callback behaviours, on valid and on damaged requests
		if len(rt.Security) > 0 {
			for _, k := range authKinds {
				p := pl.build(ri, "auth", nil, false)
				pl.authScript(p, k)
				add(p)
			}
			for k := 0; k < reps; k++ {
				// doubly bad: unauthorised AND unparseable
				modes := map[string]string{}
				for _, prm := range rt.M.Params {
					if prm.Loc != "context" && r.Chance(2, 3) {
						modes[prm.GoName] = projgen.Pick(r, []string{"omit", "garble"})
					}
				}
				p := pl.build(ri, "auth-damaged", modes, false)
				pl.authScript(p, projgen.Pick(r, []string{"refuse-all", "refuse-all", "random"}))
				add(p)
			}
			// the callback itself crashes on the first alternative (all others refuse): only the safety
			// invariant is judged - no controller code without an approval
			{
				p := pl.build(ri, "auth-callback-panics", nil, false)
				pl.authScript(p, "refuse-all")
				first := rt.Security[0]
				p.Auth[checkKey(first.Scheme, first.Scopes)] = AuthDecision{Kind: "panic"}
				p.Expect.Policy = "the authorization callback panics"
				p.Expect.Outcome = "unjudged"
				add(p)
			}
			// the client went away before the request was served: whatever the router answers, no
			// controller code may run without an approval (only C03's safety invariant is judged)
			for _, k := range []string{"refuse-all", "refuse-first"} {
				p := pl.build(ri, "auth-cancelled-request", nil, false)
				pl.authScript(p, k)
				p.CancelledRequest = true
				p.Expect.Policy = "client cancelled the request before it was served"
				p.Expect.Outcome = "unjudged"
				add(p)
			}
		} else {
			// open route: the callback must simply not matter
			p := pl.build(ri, "auth", nil, false)
			p.AuthDefault = pl.refusal()
			p.Tags = append(p.Tags, "auth:refuse-default-on-open-route")
			add(p)
		}
		// controller behaviours (replica agreement on operation errors, status overrides, headers)
		for _, sc := range []CtlScript{{Err: "plain"}, {Status: 202}, {Err: "plain", Status: 409}, {HeaderK: "X-Sim-Out", HeaderV: "v1"}} {
			p := pl.build(ri, "controller-script", nil, false)
			ret := p.Ctl.RetJSON
			p.Ctl = sc
			if sc.Err == "" {
				p.Ctl.RetJSON = ret
			}
			add(p)
		}
		// nil pointer / nil slice / empty slice results (JSON encoding must agree across engines)
		if rt.M.Ret == "value" && (rt.M.RetType.Ptr || rt.M.RetType.Slice || rt.M.RetType.Map) {
			for _, js := range []string{"null", "[]", "{}"} {
				if (js == "[]" && !rt.M.RetType.Slice) || (js == "{}" && !rt.M.RetType.Map) {
					continue
				}
				p := pl.build(ri, "controller-script", nil, false)
				p.Ctl = CtlScript{RetJSON: js}
				p.Tags = append(p.Tags, "nil-or-empty-result")
				add(p)
			}
		}
		// a response payload that violates its own field validators (only matters with validateResponsePayload)
		if rt.M.Ret == "value" && rt.M.RetType.Kind == "struct" {
			bg := &bodyGen{p: bp.Project, r: r, violate: true}
			t := rt.M.RetType
			t.Ptr = false
			js := bg.valueJSON(t, "", 0)
			if bg.violated != "" {
				p := pl.build(ri, "controller-script", nil, false)
				p.Ctl = CtlScript{RetJSON: js}
				p.Tags = append(p.Tags, "invalid-response-payload")
				add(p)
			}
		}
		// a request body that violates a top-level field validator of the body struct (or of one element of
		// a body that is a slice of structs)
		for _, prm := range rt.M.Params {
			if prm.Loc == "body" && prm.Type.Kind == "struct" {
				bg := &bodyGen{p: bp.Project, r: r, violate: true}
				t := prm.Type
				t.Ptr = false
				js := bg.valueJSON(t, "", 0)
				if bg.violated != "" {
					cls := "field-violates-validator"
					if prm.Type.Slice {
						cls = "element-field-violates-validator"
					}
					p := pl.buildForced(ri, "damaged", map[string]string{prm.GoName: "garble"}, false, map[string][]WireVal{prm.GoName: {{Raw: js, Class: cls}}})
					add(p)
				}
			}
		}
		// (c) stray requests
		for _, k := range strayKinds {
			add(pl.stray(ri, k))
		}
	}
	// (b) every operation the emitted spec documents
	for _, op := range bp.SpecOps {
		for ri, rt := range j.routes {
			if rt.M.Verb == op.Verb && rt.Path == op.Path {
				p := pl.build(ri, "spec-operation", nil, false)
				p.Tags = append(p.Tags, "documented")
				if op.OpID != rt.M.Name {
					p.Expect.OpID = bp.Project.OpPrefix + rt.Ctrl.Name + "." + op.OpID
				}
				add(p)
			}
		}
	}
	// a verb nobody annotated on this project's paths
	used := map[string]bool{}
	for _, rt := range j.routes {
		used[rt.M.Verb] = true
	}
	for _, v := range []string{"GET", "POST", "PUT", "DELETE", "PATCH"} {
		if !used[v] && len(j.routes) > 0 {
			p := pl.build(0, "stray:unannotated-verb", nil, false)
			p.Verb, p.Params = v, nil
			p.Expect = Expect{Route: -1, Outcome: "not-served"}
			add(p)
			break
		}
	}
	// sanity of the model itself: the reference router must agree with the plan's own target
	for _, p := range plans {
		if p.Expect.Route >= 0 && !strings.HasPrefix(p.Class, "stray") {
			pathOnly, _, _ := strings.Cut(p.URL, "?")
			var segs []string
			if pathOnly != "/" {
				for _, s := range strings.Split(strings.TrimPrefix(pathOnly, "/"), "/") {
					u, err := url.PathUnescape(s)
					if err != nil {
						u = s
					}
					segs = append(segs, u)
				}
			}
			if hit := matchRoute(j.routes, p.Verb, segs); hit != p.Expect.Route && p.Expect.Policy == "" {
				p.Expect.Policy = "model: concrete path is matched by another template"
			}
		}
	}

	// probe phase: the plain well-formed request of every route first (an engine that does not serve a
	// route at all is reported once and excluded for that route), then every other plan alone
	for i, p := range plans {
		if p.Class == "valid" {
			j.execGroup(nodes, []*ReqPlan{p}, seed^uint64(i)*0x9e3779b97f4a7c15)
		}
	}
	for i, p := range plans {
		if p.Class != "valid" {
			j.execGroup(nodes, []*ReqPlan{p}, seed^uint64(i)*0x9e3779b97f4a7c15)
		}
	}
	// (d) concurrent groups: 2-4 requests in flight, to the same and to different routes
	nGroups := len(plans) / 3
	for g := 0; g < nGroups; g++ {
		n := r.Range(2, 4)
		var group []*ReqPlan
		for k := 0; k < n; k++ {
			src := plans[r.Intn(len(plans))]
			cp := *src
			cp.ID = pl.nextID()
			// the derived-context token embeds the request id: re-derive expectations for the copy
			if cp.Expect.Outcome == "invoked" && cp.Expect.Args != nil {
				cp.Expect.Args = append([]string(nil), src.Expect.Args...)
				for ai, a := range cp.Expect.Args {
					if strings.HasPrefix(a, "ctx=tok-"+src.ID+"-") {
						cp.Expect.Args[ai] = "ctx=tok-" + cp.ID + "-" + strings.TrimPrefix(a, "ctx=tok-"+src.ID+"-")
					}
				}
			}
			group = append(group, &cp)
		}
		j.execGroup(nodes, group, r.U64())
	}
}
