package simrt

import (
	"context"
	"encoding/json"
	"errors"
	"fmt"
	"net/http"
	"reflect"
	"sort"
	"strconv"
	"strings"

	"github.com/gin-gonic/gin"
	"github.com/gofiber/fiber/v2"
	"github.com/gopher-fleece/runtime"
	"github.com/labstack/echo/v4"

	"simbatch/simhook"
)

// AuthDecision is what the simulated authorization callback answers for one check.
type AuthDecision struct {
	Kind    string `json:"kind"`              // approve | derive | refuse
	Status  int    `json:"status,omitempty"`  // refuse
	Payload string `json:"payload,omitempty"` // refuse: custom JSON payload ("" = standard error)
	// CancelCtx: the callback hands back a context that is already done (e.g. its own WithTimeout
	// context after a deferred cancel) - a legal behaviour of user code
	CancelCtx bool `json:"cancel_ctx,omitempty"`
}

// CtlScript is what the simulated controller does.
type CtlScript struct {
	Err       string `json:"err,omitempty"`    // "" | plain
	Status    int    `json:"status,omitempty"` // SetStatus
	HeaderK   string `json:"header_k,omitempty"`
	HeaderV   string `json:"header_v,omitempty"`
	RetJSON   string `json:"ret_json,omitempty"` // value result, unmarshalled into the method's result
}

type simKeyT struct{}

var simKey = simKeyT{}

func checkKey(scheme string, scopes []string) string {
	return scheme + "|" + strings.Join(scopes, ",")
}

func reqIDOf(engineReq any) string {
	switch r := engineReq.(type) {
	case *gin.Context:
		return r.Request.Header.Get("X-Sim-Req")
	case echo.Context:
		return r.Request().Header.Get("X-Sim-Req")
	case *fiber.Ctx:
		return r.Get("X-Sim-Req")
	case *http.Request:
		return r.Header.Get("X-Sim-Req")
	}
	return ""
}

func (s *Sim) crossCheck(where string, engineReq any) {
	if s.cur == nil || engineReq == nil {
		return
	}
	if id := reqIDOf(engineReq); id != "" && id != s.cur.Plan.ID {
		s.event("CrossTalk", fmt.Sprintf("%s saw request %s while task of request %s held the token", where, id, s.cur.Plan.ID))
	}
}

func authHook(ctx context.Context, engineReq any, check runtime.SecurityCheck) (context.Context, *runtime.SecurityError) {
	s := active
	if s == nil || s.cur == nil {
		return ctx, nil
	}
	s.crossCheck("auth", engineReq)
	key := checkKey(check.SchemaName, check.Scopes)
	s.event("AuthCheck", key)
	s.yield("auth")
	t := s.cur
	d, ok := t.Plan.Auth[key]
	if !ok {
		d = t.Plan.AuthDefault
	}
	switch d.Kind {
	case "panic":
		// user code may crash: whatever the router then answers, it must not treat the check as approved
		s.event("AuthResult", "panic "+key)
		panic("simulated authorization callback panic for " + key)
	case "refuse":
		s.event("AuthResult", fmt.Sprintf("refuse %d %s", d.Status, key))
		se := &runtime.SecurityError{Message: "refused by the simulated authorization service", StatusCode: runtime.HttpStatusCode(d.Status)}
		if d.Payload != "" {
			var payload any
			json.Unmarshal([]byte(d.Payload), &payload)
			se.CustomError = &runtime.CustomError{Payload: payload}
		}
		if d.CancelCtx {
			c, cancel := context.WithCancel(ctx)
			cancel()
			return c, se
		}
		return ctx, se
	case "derive":
		s.event("AuthResult", "approve "+key)
		if d.CancelCtx {
			c, cancel := context.WithCancel(context.WithValue(ctx, simKey, "tok-"+t.Plan.ID+"-"+key))
			cancel()
			return c, nil
		}
		return context.WithValue(ctx, simKey, "tok-"+t.Plan.ID+"-"+key), nil
	default:
		s.event("AuthResult", "approve "+key)
		return ctx, nil
	}
}

// CanonArg renders a controller argument independently of the generated types:
// "<go type>=<value>" where the type is reflect's "pkg.Name" spelling.
func CanonArg(v any) string {
	if v == nil {
		return "nil"
	}
	if c, ok := v.(context.Context); ok {
		return fmt.Sprintf("ctx=%v", c.Value(simKey))
	}
	rv := reflect.ValueOf(v)
	return rv.Type().String() + "=" + canonValue(rv)
}

func canonValue(rv reflect.Value) string {
	switch rv.Kind() {
	case reflect.Ptr:
		if rv.IsNil() {
			return "nil"
		}
		return canonValue(rv.Elem())
	case reflect.Slice:
		if rv.IsNil() {
			return "nil"
		}
		parts := make([]string, rv.Len())
		for i := range parts {
			parts[i] = canonValue(rv.Index(i))
		}
		return "[" + strings.Join(parts, ",") + "]"
	case reflect.String:
		return strconv.Quote(rv.String())
	case reflect.Bool:
		return strconv.FormatBool(rv.Bool())
	case reflect.Int, reflect.Int8, reflect.Int16, reflect.Int32, reflect.Int64:
		return strconv.FormatInt(rv.Int(), 10)
	case reflect.Uint, reflect.Uint8, reflect.Uint16, reflect.Uint32, reflect.Uint64:
		return strconv.FormatUint(rv.Uint(), 10)
	case reflect.Float32:
		return strconv.FormatFloat(rv.Float(), 'g', -1, 32)
	case reflect.Float64:
		return strconv.FormatFloat(rv.Float(), 'g', -1, 64)
	case reflect.Struct, reflect.Map:
		if rv.Kind() == reflect.Map && rv.IsNil() {
			return "nil"
		}
		b, err := json.Marshal(rv.Interface())
		if err != nil {
			return "unmarshalable:" + err.Error()
		}
		return normJSON(string(b))
	default:
		b, _ := json.Marshal(rv.Interface())
		return string(b)
	}
}

// normJSON re-marshals a JSON text with sorted keys and json.Number-preserved numbers.
func normJSON(s string) string {
	dec := json.NewDecoder(strings.NewReader(s))
	dec.UseNumber()
	var v any
	if err := dec.Decode(&v); err != nil {
		return "INVALID-JSON:" + s
	}
	return marshalSorted(v)
}

func marshalSorted(v any) string {
	switch x := v.(type) {
	case map[string]any:
		keys := make([]string, 0, len(x))
		for k := range x {
			keys = append(keys, k)
		}
		sort.Strings(keys)
		parts := make([]string, len(keys))
		for i, k := range keys {
			parts[i] = strconv.Quote(k) + ":" + marshalSorted(x[k])
		}
		return "{" + strings.Join(parts, ",") + "}"
	case []any:
		parts := make([]string, len(x))
		for i := range x {
			parts[i] = marshalSorted(x[i])
		}
		return "[" + strings.Join(parts, ",") + "]"
	case json.Number:
		// numeric normalisation: 1.0 == 1, 1e2 == 100
		if f, err := strconv.ParseFloat(string(x), 64); err == nil {
			return strconv.FormatFloat(f, 'g', -1, 64)
		}
		return string(x)
	default:
		b, _ := json.Marshal(x)
		return string(b)
	}
}

func controllerHook(ctl runtime.Controller, op string, ret any, args ...any) error {
	s := active
	if s == nil || s.cur == nil {
		return nil
	}
	s.crossCheck("controller", ctl.GetContext())
	parts := make([]string, len(args))
	for i, a := range args {
		parts[i] = CanonArg(a)
	}
	b, _ := json.Marshal(parts)
	s.event("ControllerCall", op+" "+string(b))
	s.yield("controller")
	sc := s.cur.Plan.Ctl
	if sc.Status != 0 {
		ctl.SetStatus(runtime.HttpStatusCode(sc.Status))
	}
	if sc.HeaderK != "" {
		ctl.SetHeader(sc.HeaderK, sc.HeaderV)
	}
	if sc.Err != "" {
		return errors.New("simulated operation error")
	}
	if ret != nil && sc.RetJSON != "" && sc.RetJSON != "null" {
		json.Unmarshal([]byte(sc.RetJSON), ret)
	}
	return nil
}

// MW is called by the probe middlewares registered on every engine.
func MW(kind string, ctx context.Context, engineReq any) (context.Context, bool) {
	s := active
	if s == nil || s.cur == nil {
		return ctx, true
	}
	s.crossCheck("middleware "+kind, engineReq)
	s.event(kind, "")
	s.yield("mw:" + kind)
	return ctx, true
}

// ProbeValidator is registered as custom validator "sim_probe" on every engine.
func ProbeValidator(fl runtime.ValidationFieldLevel) bool {
	s := active
	if s == nil || s.cur == nil {
		return true
	}
	s.event("ValidatorCall", fl.FieldName())
	s.yield("validator")
	return true
}

func init() {
	simhook.Auth = authHook
	simhook.Invoke = controllerHook
}
