package simrt

import (
	"sort"
	"strings"

	"simbatch/projgen"
)

// cause describes what is still special about a (minimised) request: the
// parameters that are not plain, the callback/controller scripts that are not
// the defaults, and body chunking. It is the stable part of a finding's identity.
func cause(p *ReqPlan) string {
	var parts []string
	for _, pp := range p.Params {
		if pp.Mode != "send" {
			parts = append(parts, pp.Loc+"/"+pp.TypeClass+"/"+pp.Mode)
			continue
		}
		seen := map[string]bool{}
		for _, v := range pp.Vals {
			if v.Class != "plain" && v.Class != "json" && v.Class != "enum-member" && !seen[v.Class] {
				seen[v.Class] = true
				parts = append(parts, pp.Loc+"/"+pp.TypeClass+"/"+v.Class)
			}
		}
	}
	refuse, derive, payload := false, p.AuthDefault.Kind == "derive", false
	if p.AuthDefault.Kind == "refuse" {
		refuse = true
	}
	for _, d := range p.Auth {
		switch d.Kind {
		case "refuse":
			refuse = true
			if d.Payload != "" {
				payload = true
			}
		case "derive":
			derive = true
		}
	}
	if refuse {
		parts = append(parts, "auth:refuse")
	}
	for _, d := range p.Auth {
		if d.Kind == "panic" {
			parts = append(parts, "auth:panic")
			break
		}
	}
	for _, d := range p.Auth {
		if d.CancelCtx {
			parts = append(parts, "auth:cancelled-ctx")
			break
		}
	}
	if p.CancelledRequest {
		parts = append(parts, "client:cancelled")
	}
	if payload {
		parts = append(parts, "auth:payload")
	}
	if derive {
		parts = append(parts, "auth:derive")
	}
	if p.Ctl.Err != "" {
		parts = append(parts, "ctl:error")
	}
	if p.Ctl.Status != 0 {
		parts = append(parts, "ctl:status")
	}
	if p.Ctl.HeaderK != "" {
		parts = append(parts, "ctl:header")
	}
	if p.Ctl.RetJSON == "null" || p.Ctl.RetJSON == "[]" || p.Ctl.RetJSON == "{}" {
		parts = append(parts, "ctl:nil-or-empty-result")
	}
	if len(p.Chunks) > 0 {
		parts = append(parts, "chunked")
	}
	if p.UnknownLength {
		parts = append(parts, "unknown-length")
	}
	for _, q := range p.Quirks {
		parts = append(parts, "client:"+q)
	}
	sort.Strings(parts)
	if len(parts) == 0 {
		return "plain-request"
	}
	return strings.Join(parts, ";")
}

func focusOf(v *Violation) *ReqPlan {
	for _, p := range v.Group {
		if p.ID == v.Focus {
			return p
		}
	}
	return v.Group[0]
}

func sameKind(a, b *Violation) bool {
	return a.Property == b.Property && a.Class == b.Class && a.Engine == b.Engine && a.Dim == b.Dim
}

// minimise shrinks a violating case while the same kind of violation persists:
// concurrent group -> single request; every special parameter -> plain; scripts
// -> defaults; chunked -> whole. The result's signature names only what remains.
func (j *judge) minimise(nodes map[string]*node, v Violation) Violation {
	reproduce := func(group []*ReqPlan) *Violation {
		j2 := &judge{proj: j.proj, routes: j.routes, tag: j.tag, stats: newStats()}
		if v.Class != "not-served" && v.Class != "misrouted" && v.Class != "wrong-method" {
			j2.broken = j.broken
		}
		j2.execGroup(nodes, group, v.SchedSeed)
		for i := range j2.out {
			if sameKind(&j2.out[i], &v) && j2.out[i].Focus == group[0].ID {
				return &j2.out[i]
			}
		}
		return nil
	}
	focus := focusOf(&v)
	if focus.Class == "registration" || focus.Class == "spec" {
		return v
	}
	if len(v.Group) > 1 {
		if nv := reproduce([]*ReqPlan{focus}); nv != nil {
			v = *nv
		} else {
			v.Concurrent = true
			return v
		}
	}
	focus = focusOf(&v)
	if focus.Expect.Route < 0 || strings.HasPrefix(focus.Class, "stray") {
		return v
	}
	pl := &planner{p: j.proj, routes: j.routes, r: projgen.Stream(projgen.Stream(v.SchedSeed, v.Property+v.Class, 0).U64(), "min", 0), tag: j.tag + "m"}
	rebuild := func(src *ReqPlan, modes map[string]string, forced map[string][]WireVal) *ReqPlan {
		np := pl.buildForced(src.Expect.Route, src.Class, modes, false, forced)
		np.Tags = append([]string(nil), src.Tags...)
		np.Auth, np.AuthDefault, np.Chunks = src.Auth, src.AuthDefault, nil
		ret := np.Ctl.RetJSON
		np.Ctl = src.Ctl
		if np.Ctl.RetJSON == "" && np.Ctl.Err == "" {
			np.Ctl.RetJSON = ret
		}
		if len(src.Chunks) > 0 && np.Body == src.Body {
			np.Chunks = src.Chunks
		}
		np.UnknownLength, np.CancelledRequest = src.UnknownLength, src.CancelledRequest
		np.Quirks = src.Quirks
		if src.Expect.OpID != "" {
			np.Expect.OpID = src.Expect.OpID
		}
		pl.applyAuth(np)
		return np
	}
	modes := map[string]string{}
	forced := map[string][]WireVal{}
	for _, pp := range focus.Params {
		if pp.Mode != "send" {
			modes[pp.Name] = pp.Mode
		}
		if len(pp.Vals) > 0 {
			forced[pp.Name] = pp.Vals
		}
	}
	cur := focus
	try := func(np *ReqPlan) bool {
		if nv := reproduce([]*ReqPlan{np}); nv != nil {
			v, cur = *nv, np
			return true
		}
		return false
	}
	names := make([]string, 0, len(focus.Params))
	for _, pp := range focus.Params {
		names = append(names, pp.Name)
	}
	for _, name := range names {
		m2, f2 := map[string]string{}, map[string][]WireVal{}
		for k, x := range modes {
			if k != name {
				m2[k] = x
			}
		}
		for k, x := range forced {
			if k != name {
				f2[k] = x
			}
		}
		if try(rebuild(cur, m2, f2)) {
			modes, forced = m2, f2
		}
	}
	if v.Property != "C03" && (len(cur.Auth) > 0 || cur.AuthDefault.Kind != "approve") {
		np := rebuild(cur, modes, forced)
		np.Auth, np.AuthDefault = nil, AuthDecision{Kind: "approve"}
		np.Expect = rebuild(&ReqPlan{Class: cur.Class, Expect: cur.Expect, AuthDefault: AuthDecision{Kind: "approve"}, Ctl: cur.Ctl}, modes, forced).Expect
		// rebuild drew fresh plain values: take the whole fresh plan, with default auth
		fresh := rebuild(&ReqPlan{Class: cur.Class, Tags: cur.Tags, Expect: cur.Expect, AuthDefault: AuthDecision{Kind: "approve"}, Ctl: cur.Ctl, Chunks: nil}, modes, forced)
		try(fresh)
	}
	if cur.Ctl.Err != "" || cur.Ctl.Status != 0 || cur.Ctl.HeaderK != "" {
		np := rebuild(cur, modes, forced)
		ret := np.Ctl.RetJSON
		np.Ctl = CtlScript{RetJSON: ret}
		if np.Ctl.RetJSON == "" {
			fresh := pl.buildForced(cur.Expect.Route, cur.Class, modes, false, forced)
			np.Ctl = fresh.Ctl
		}
		try(np)
	}
	if len(cur.Chunks) > 0 {
		np := *cur
		np.Chunks = nil
		np.ID = pl.nextID()
		try(&np)
	}
	if cur.UnknownLength {
		np := *cur
		np.UnknownLength = false
		np.ID = pl.nextID()
		try(&np)
	}
	for qi := 0; qi < len(cur.Quirks); {
		np := *cur
		np.Quirks = append(append([]string{}, cur.Quirks[:qi]...), cur.Quirks[qi+1:]...)
		np.ID = pl.nextID()
		if !try(&np) {
			qi++
		}
	}
	return v
}

// finalSignature is computed after minimisation.
func finalSignature(v *Violation) string {
	focus := focusOf(v)
	parts := []string{v.Property}
	if v.Engine != "" {
		parts = append(parts, v.Engine)
	}
	parts = append(parts, v.Class)
	if v.Dim != "" {
		parts = append(parts, v.Dim)
	}
	switch {
	case focus.Class == "registration":
		parts = append(parts, focus.Tags...)
	case focus.Class == "spec":
	case v.Class == "served-longer-path-below-trailing-param":
		// the stray kind that happened to produce the longer path does not matter
	case strings.HasPrefix(focus.Class, "stray"):
		collides := false
		for _, t := range focus.Tags {
			if t == "value-equals-sibling-literal" {
				collides = true
			}
		}
		if collides {
			parts = append(parts, "stray:value-equals-sibling-literal")
		} else {
			parts = append(parts, focus.Class)
		}
	case v.Property == "C02" && (v.Class == "not-served" || v.Class == "misrouted" || v.Class == "wrong-method"):
		// a dispatch finding is about the route, not about what the request carried
		parts = append(parts, "route:"+shapeTags(focus))
	default:
		parts = append(parts, cause(focus))
		if v.Property == "C02" {
			parts = append(parts, "route:"+shapeTags(focus))
		}
	}
	if v.Property != "C02" {
		if t := overlapTag(focus); t != "" {
			parts = append(parts, "route:"+t)
		}
	}
	if v.Concurrent {
		parts = append(parts, "only-when-concurrent")
	}
	return strings.Join(parts, "|")
}
