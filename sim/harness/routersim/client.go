package simrt

import (
	"fmt"
	"net/url"
	"sort"
	"strings"

	"simbatch/projgen"
)

// ParamPlan is what the client does with one declared parameter.
type ParamPlan struct {
	Name   string    `json:"name"`  // Go name
	Loc    string    `json:"loc"`
	Mode   string    `json:"mode"`  // send | omit | garble | violate | wrong-location
	Vals   []WireVal `json:"vals"`  // one value; several for a query slice
	TypeClass string `json:"type_class"`
}

// Expect is the reference model's prediction.
type Expect struct {
	Route     int      `json:"route"` // index into project routes, -1 = no annotated route matches
	OpID      string   `json:"op_id,omitempty"`
	Outcome   string   `json:"outcome"` // invoked | refused | 422 | not-served | unjudged
	Args      []string `json:"args,omitempty"` // canonical, "?" = not judged
	RefuseStatuses []int `json:"refuse_statuses,omitempty"`
	Why       string   `json:"why,omitempty"`
	Policy    string   `json:"policy,omitempty"` // framework-policy shape: generated, not judged
	// PolicyFor: the same, but only for the named engines (the others are judged)
	PolicyFor map[string]string `json:"policy_for,omitempty"`
}

// ReqPlan is one simulated client request (a pure value: replayable).
type ReqPlan struct {
	ID      string                  `json:"id"`
	Class   string                  `json:"class"`
	Tags    []string                `json:"tags,omitempty"`
	Verb    string                  `json:"verb"`
	URL     string                  `json:"url"` // escaped path + raw query
	Headers [][2]string             `json:"headers,omitempty"`
	Body    string                  `json:"body,omitempty"`
	CType   string                  `json:"ctype,omitempty"`
	Chunks  []int                   `json:"chunks,omitempty"`
	// UnknownLength: the client streams the body without declaring its length (chunked transfer coding)
	UnknownLength bool `json:"unknown_length,omitempty"`
	// Quirks: legal things a client may do that change nothing about what the request carries:
	// "ctype-charset" (a charset parameter on the declared media type), "extra-query" / "extra-header"
	// (an unrelated query key / header next to the declared ones), "dup-query-same" (the first scalar query
	// key twice, same value) - and one whose effect C05 does not decide: "no-ctype" (body without media type)
	Quirks []string `json:"quirks,omitempty"`
	// DupQuery: "key=value" (escaped) of the first scalar query parameter the request carries
	DupQuery string `json:"dup_query,omitempty"`
	// DupHeader: name and value of the first scalar header parameter the request carries
	DupHeader []string `json:"dup_header,omitempty"`
	Auth    map[string]AuthDecision `json:"auth,omitempty"`
	AuthDefault AuthDecision        `json:"auth_default"`
	Ctl     CtlScript               `json:"ctl"`
	Params  []ParamPlan             `json:"params,omitempty"`
	Expect  Expect                  `json:"expect"`
	// CancelledRequest: the client went away before the request was served (its context is done).
	// Only C03's safety invariant is judged on such a request.
	CancelledRequest bool `json:"cancelled_request,omitempty"`
	// BaseRoute is the annotated route the request was derived from (equals Expect.Route except for strays)
	BaseRoute int `json:"base_route"`
}

type planner struct {
	p      *projgen.Project
	routes []projgen.Route
	r      *projgen.Rand
	n      int
	tag    string
}

func (pl *planner) nextID() string {
	pl.n++
	return fmt.Sprintf("%s-%d", pl.tag, pl.n)
}

func routeTags(rt projgen.Route) []string {
	var tags []string
	raw := rt.Ctrl.Route + rt.M.Route
	if strings.Contains(raw, "//") {
		tags = append(tags, "doubled-slash")
	}
	if !strings.HasPrefix(raw, "/") {
		tags = append(tags, "no-leading-slash")
	}
	if strings.HasSuffix(rt.Path, "/") && rt.Path != "/" {
		tags = append(tags, "trailing-slash")
	}
	if rt.Path == "/" {
		tags = append(tags, "root")
	}
	for _, s := range rt.Segs {
		if projgen.IsParamSeg(s) {
			tags = append(tags, "param")
			break
		}
	}
	for _, s := range rt.Segs {
		if projgen.IsParamSeg(s) && strings.ContainsAny(s, "-.") {
			tags = append(tags, "hyphen-param")
			break
		}
	}
	if rt.M.Hidden {
		tags = append(tags, "hidden")
	}
	if len(tags) == 0 {
		tags = []string{"plain"}
	}
	return tags
}

// tagsOf adds the overlap relation of a route to its structural tags: a literal route that
// shadows a parameter route of the same verb, and whether that parameter route is declared
// (hence, in a generator that keeps declaration order, registered) before or after it.
func (pl *planner) tagsOf(ri int) []string {
	rt := pl.routes[ri]
	tags := routeTags(rt)
	for oi, o := range pl.routes {
		if oi == ri || o.M.Verb != rt.M.Verb {
			continue
		}
		if projgen.MoreSpecific(rt.Segs, o.Segs) {
			if pl.p.RegOrderKey(o) < pl.p.RegOrderKey(rt) {
				tags = append(tags, "shadows-earlier-param")
			} else {
				tags = append(tags, "shadows-later-param")
			}
			break
		}
		if projgen.MoreSpecific(o.Segs, rt.Segs) {
			tags = append(tags, "has-literal-sibling")
			break
		}
	}
	return tags
}

func typeClass(t projgen.TypeRef) string {
	s := t.Kind + ":" + t.Prim
	if t.Kind == "struct" {
		s = "struct"
	}
	if t.Slice {
		s = "[]" + s
	}
	if t.Map {
		s = "map[]" + s
	}
	if t.Ptr {
		s = "*" + s
	}
	return s
}

// matchRoute is the reference router: verb + concrete (unescaped) path segments.
// Among several matching templates the one with the most literal segments owns
// the path (a request to exactly /items/featured addresses the literal route,
// not /items/{id}); a tie is ambiguous (-2).
func matchRoute(routes []projgen.Route, verb string, segs []string) int {
	best, bestLit, tie := -1, -1, false
	for i, rt := range routes {
		if rt.M.Verb != verb || len(rt.Segs) != len(segs) {
			continue
		}
		ok, lit := true, 0
		for j, ts := range rt.Segs {
			if projgen.IsParamSeg(ts) {
				if segs[j] == "" {
					ok = false
				}
				continue
			}
			if ts != segs[j] {
				ok = false
			}
			lit++
		}
		if !ok {
			continue
		}
		switch {
		case lit > bestLit:
			best, bestLit, tie = i, lit, false
		case lit == bestLit:
			tie = true
		}
	}
	if tie {
		return -2
	}
	return best
}

func (pl *planner) enumOf(t projgen.TypeRef) []string {
	for _, e := range pl.p.Enums {
		if e.Pkg == t.Pkg && e.Name == t.Name {
			return e.Values
		}
	}
	return nil
}

// goodValue draws a well-formed value for a non-body parameter that satisfies its validator.
func (pl *planner) goodValue(prm projgen.Param, adventurous bool) (WireVal, bool) {
	t := prm.Type
	if t.Kind == "enum" {
		vals := pl.enumOf(t)
		if len(vals) == 0 {
			return WireVal{}, false
		}
		lit := projgen.Pick(pl.r, vals)
		raw := lit
		if t.Prim == "string" {
			raw = strings.Trim(lit, `"`)
		}
		canon, ok := convert(t.Prim, raw)
		return WireVal{Raw: raw, Canon: canon, Class: "enum-member", OK: ok}, ok
	}
	cands := candidates(t.Prim, prm.Loc)
	var good []WireVal
	for _, c := range cands {
		if !c.OK {
			continue
		}
		if !adventurous && c.Class != "plain" {
			continue
		}
		if prm.Validate != "" {
			sat, known := satisfies(prm.Validate, t.Prim, c.Canon, true)
			if !known || !sat {
				continue
			}
		}
		good = append(good, c)
	}
	if len(good) == 0 {
		// construct one inside the validator's range
		bg := &bodyGen{p: pl.p, r: pl.r}
		lit := bg.primJSON(t.Prim, prm.Validate)
		raw := lit
		if t.Prim == "string" {
			raw = strings.Trim(lit, `"`)
		}
		canon, ok := convert(t.Prim, raw)
		if !ok {
			return WireVal{}, false
		}
		if prm.Validate != "" {
			if sat, known := satisfies(prm.Validate, t.Prim, canon, true); !known || !sat {
				return WireVal{}, false
			}
		}
		return WireVal{Raw: raw, Canon: canon, Class: "plain", OK: true}, true
	}
	if adventurous {
		// pick a value class first, so rare classes (unicode, reserved, empty) are not drowned by plain ones
		byClass := map[string][]WireVal{}
		var classes []string
		for _, gv := range good {
			if _, ok := byClass[gv.Class]; !ok {
				classes = append(classes, gv.Class)
			}
			byClass[gv.Class] = append(byClass[gv.Class], gv)
		}
		return projgen.Pick(pl.r, byClass[projgen.Pick(pl.r, classes)]), true
	}
	return projgen.Pick(pl.r, good), true
}

func escapePathSeg(s string) string { return url.PathEscape(s) }

// build renders a plan for route ri where each parameter is handled per modes
// (default "send"). It fills URL, headers, body and the model's expectation.
func (pl *planner) build(ri int, class string, modes map[string]string, adventurous bool) *ReqPlan {
	return pl.buildForced(ri, class, modes, adventurous, nil)
}

// buildForced is build with some parameters' wire values dictated (used when a
// failing request is minimised: everything not dictated becomes plain).
func (pl *planner) buildForced(ri int, class string, modes map[string]string, adventurous bool, forced map[string][]WireVal) *ReqPlan {
	rt := pl.routes[ri]
	m := rt.M
	plan := &ReqPlan{ID: pl.nextID(), Class: class, Tags: pl.tagsOf(ri), Verb: m.Verb, AuthDefault: AuthDecision{Kind: "approve"}, BaseRoute: ri}
	plan.Expect = Expect{Route: ri, OpID: pl.p.OpPrefix + rt.OpID, Outcome: "invoked"}
	pathVals := map[string]string{}
	q := url.Values{}
	var qOrder []string
	form := url.Values{}
	hasForm := false
	expectArgs := make([]string, len(m.Params))
	fail := func(why string) {
		if plan.Expect.Outcome == "invoked" {
			plan.Expect.Outcome, plan.Expect.Why = "422", why
		}
	}
	for i, prm := range m.Params {
		if prm.Loc == "context" {
			expectArgs[i] = "ctx=<nil>"
			continue
		}
		mode := modes[prm.GoName]
		if mode == "" {
			mode = "send"
		}
		pp := ParamPlan{Name: prm.GoName, Loc: prm.Loc, Mode: mode, TypeClass: typeClass(prm.Type)}
		wire := prm.WireName()
		if prm.Loc == "body" {
			bg := &bodyGen{p: pl.p, r: pl.r}
			switch mode {
			case "send":
				t := prm.Type
				t.Ptr = false
				js := bg.valueJSON(t, "", 0)
				if fv, ok := forced[prm.GoName]; ok && len(fv) > 0 {
					js = fv[0].Raw
				}
				plan.Body, plan.CType = js, "application/json"
				expectArgs[i] = fmtArg(prm.Type, normJSON(js))
				pp.Vals = []WireVal{{Raw: js, Class: "json", OK: true}}
			case "omit":
				plan.Body = ""
				if prm.Type.Ptr && !strings.Contains(prm.Validate, "required") {
					expectArgs[i] = "?" // optional body: may arrive as nil
				} else {
					fail("body omitted")
				}
			case "garble":
				bad := projgen.Pick(pl.r, []string{"{", `{"f0":`, `[1,2`, `"just a string"`, "nul", `{"f0":{"x":1},"f1":[[]]}x`})
				if fv, ok := forced[prm.GoName]; ok && len(fv) > 0 {
					bad = fv[0].Raw
				}
				plan.Body, plan.CType = bad, "application/json"
				pp.Vals = []WireVal{{Raw: bad, Class: "malformed-json"}}
				fail("malformed body")
			}
			plan.Params = append(plan.Params, pp)
			continue
		}
		// non-body parameter
		var vals []WireVal
		fv, isForced := forced[prm.GoName]
		switch {
		case isForced && len(fv) > 0 && mode != "omit":
			vals = append(vals, fv...)
			for _, v := range vals {
				if !v.OK {
					fail(fmt.Sprintf("%s does not convert to %s", prm.GoName, prm.Type.Prim))
				} else if prm.Validate != "" && prm.Type.Kind != "enum" {
					if sat, known := satisfies(prm.Validate, prm.Type.Prim, v.Canon, true); known && !sat {
						fail(fmt.Sprintf("%s violates %q", prm.GoName, prm.Validate))
					}
				}
			}
		case mode == "send":
			n := 1
			if prm.Type.Slice {
				n = pl.r.Range(1, 3)
			}
			for k := 0; k < n; k++ {
				v, ok := pl.goodValue(prm, adventurous)
				if !ok {
					plan.Expect.Outcome, plan.Expect.Why = "unjudged", "no well-formed value for "+prm.GoName
					v = WireVal{Raw: "1", Class: "fallback"}
				}
				vals = append(vals, v)
			}
		case mode == "garble":
			g := garbled(prm.Type.Prim)
			if prm.Loc == "header" {
				// a header value cannot carry edge blanks over a real wire (RFC 9110 OWS is trimmed)
				var g2 []WireVal
				for _, x := range g {
					if strings.TrimSpace(x.Raw) == x.Raw {
						g2 = append(g2, x)
					}
				}
				g = g2
			}
			if len(g) == 0 {
				mode = "send"
				v, _ := pl.goodValue(prm, false)
				vals = []WireVal{v}
			} else {
				vals = []WireVal{projgen.Pick(pl.r, g)}
				if prm.Loc == "path" && vals[0].Raw == "" {
					vals[0] = g[0]
				}
				fail(fmt.Sprintf("%s does not convert to %s", prm.GoName, prm.Type.Prim))
			}
		case mode == "violate":
			v, ok := violating(prm.Validate, prm.Type.Prim)
			if !ok || prm.Type.Kind == "enum" {
				mode = "send"
				v, _ = pl.goodValue(prm, false)
			} else {
				fail(fmt.Sprintf("%s violates %q", prm.GoName, prm.Validate))
			}
			vals = []WireVal{v}
		case mode == "wrong-location":
			// the value travels under the declared wire name but in ANOTHER location; for the declared
			// location the parameter is simply absent
			if prm.Loc == "path" {
				mode = "send"
				v, _ := pl.goodValue(prm, false)
				vals = []WireVal{v}
				break
			}
			v, _ := pl.goodValue(prm, false)
			other := map[string]string{"query": "header", "header": "query", "form": "query"}[prm.Loc]
			if prm.Loc == "query" && (m.Verb == "POST" || m.Verb == "PUT" || m.Verb == "PATCH") {
				hasBody := false
				for _, o := range m.Params {
					if o.Loc == "body" {
						hasBody = true
					}
				}
				if !hasBody {
					other = "form"
				}
			}
			switch other {
			case "query":
				if _, seen := q[wire]; !seen {
					qOrder = append(qOrder, wire)
				}
				q.Add(wire, v.Raw)
				if plan.DupQuery == "" && !prm.Type.Slice && mode == "send" && len(vals) == 1 {
					plan.DupQuery = url.QueryEscape(wire) + "=" + url.QueryEscape(v.Raw)
				}
			case "header":
				plan.Headers = append(plan.Headers, [2]string{wire, v.Raw})
				if plan.DupHeader == nil && !prm.Type.Slice && mode == "send" && len(vals) == 1 && v.Raw != "" {
					plan.DupHeader = []string{wire, v.Raw}
				}
			case "form":
				hasForm = true
				form.Add(wire, v.Raw)
			}
			pp.Vals = nil
			if prm.Type.Ptr && prm.Validate == "" {
				expectArgs[i] = "?"
			} else if prm.Type.Ptr && !strings.Contains(prm.Validate, "required") {
				plan.Expect.Outcome, plan.Expect.Why = "unjudged", "optional parameter "+prm.GoName+" with validator sent in the wrong location"
			} else {
				fail(prm.GoName + " sent in " + other + " instead of " + prm.Loc)
			}
		case mode == "omit":
			if prm.Loc == "path" {
				mode = "send"
				v, _ := pl.goodValue(prm, false)
				vals = []WireVal{v}
			} else if prm.Type.Ptr && prm.Validate == "" {
				expectArgs[i] = "?" // optional parameter: may arrive as nil
			} else if prm.Type.Ptr && !strings.Contains(prm.Validate, "required") {
				// optional parameter with a value constraint: the statement does not say whether absence satisfies it
				plan.Expect.Outcome, plan.Expect.Why = "unjudged", "optional parameter "+prm.GoName+" with validator omitted"
			} else {
				fail(prm.GoName + " omitted")
			}
		}
		pp.Mode, pp.Vals = mode, vals
		plan.Params = append(plan.Params, pp)
		if len(vals) > 0 && expectArgs[i] == "" {
			if prm.Type.Slice {
				parts := make([]string, len(vals))
				for k := range vals {
					parts[k] = vals[k].Canon
				}
				expectArgs[i] = fmtArg(prm.Type, "["+strings.Join(parts, ",")+"]")
			} else {
				expectArgs[i] = fmtArg(prm.Type, vals[0].Canon)
			}
		}
		for _, v := range vals {
			switch prm.Loc {
			case "path":
				pathVals[wire] = v.Raw
			case "query":
				if _, seen := q[wire]; !seen {
					qOrder = append(qOrder, wire)
				}
				q.Add(wire, v.Raw)
				if plan.DupQuery == "" && !prm.Type.Slice && mode == "send" && len(vals) == 1 {
					plan.DupQuery = url.QueryEscape(wire) + "=" + url.QueryEscape(v.Raw)
				}
			case "header":
				plan.Headers = append(plan.Headers, [2]string{wire, v.Raw})
				if plan.DupHeader == nil && !prm.Type.Slice && mode == "send" && len(vals) == 1 && v.Raw != "" {
					plan.DupHeader = []string{wire, v.Raw}
				}
			case "form":
				hasForm = true
				form.Add(wire, v.Raw)
			}
			if v.Class == "slash" && prm.Loc == "path" {
				plan.Expect.Policy = "encoded slash inside a path value"
			}
			if v.Class == "empty" && prm.Loc == "header" {
				plan.Expect.Policy = "empty header value"
			}
		}
	}
	// path
	var segs []string
	for _, s := range rt.Segs {
		if projgen.IsParamSeg(s) {
			segs = append(segs, escapePathSeg(pathVals[strings.Trim(s, "{}")]))
		} else {
			segs = append(segs, s)
		}
	}
	plan.URL = "/" + strings.Join(segs, "/")
	{
		// fiber's default (non-strict) routing treats /x and /x/ as one path: when the other spelling of this
		// request's concrete path is matched by ANOTHER template of the same verb, which of the two fiber
		// serves is framework policy (first registered wins) - not judged for fiber
		var plainSegs []string
		for _, sg := range rt.Segs {
			if projgen.IsParamSeg(sg) {
				plainSegs = append(plainSegs, pathVals[strings.Trim(sg, "{}")])
			} else {
				plainSegs = append(plainSegs, sg)
			}
		}
		alt := append(append([]string{}, plainSegs...), "")
		if n := len(plainSegs); n > 0 && plainSegs[n-1] == "" {
			alt = plainSegs[:n-1]
		}
		if ah := matchRoute(pl.routes, m.Verb, alt); ah != ri && ah != -1 {
			if plan.Expect.PolicyFor == nil {
				plan.Expect.PolicyFor = map[string]string{}
			}
			plan.Expect.PolicyFor["fiber"] = "non-strict routing: the path without/with the trailing slash is matched by another template"
		}
	}
	if len(qOrder) > 0 {
		var parts []string
		for _, k := range qOrder {
			for _, v := range q[k] {
				parts = append(parts, url.QueryEscape(k)+"="+url.QueryEscape(v))
			}
		}
		plan.URL += "?" + strings.Join(parts, "&")
	}
	if hasForm {
		plan.Body, plan.CType = form.Encode(), "application/x-www-form-urlencoded"
	} else if plan.CType == "" && m.Verb != "GET" && m.Verb != "DELETE" {
		// a form route whose fields were all omitted still declares its content type
		for _, prm := range m.Params {
			if prm.Loc == "form" {
				plan.CType = "application/x-www-form-urlencoded"
			}
		}
	}
	if plan.Expect.Outcome == "invoked" {
		plan.Expect.Args = expectArgs
	}
	// A request that spells an annotated trailing-slash template exactly is served by every engine. Only
	// when ANOTHER route of the same verb differs from this one by nothing but the trailing slash is the
	// pair indistinguishable for fiber's default (non-strict) routing: framework policy for fiber alone.
	for oi, o := range pl.routes {
		if oi != ri && o.M.Verb == m.Verb && strings.TrimSuffix(o.Path, "/") == strings.TrimSuffix(rt.Path, "/") && o.Path != rt.Path {
			plan.Expect.PolicyFor = map[string]string{"fiber": "non-strict routing cannot tell " + rt.Path + " from " + o.Path}
			plan.Tags = append(plan.Tags, "slash-twin")
		}
	}
	// default controller script: a value result the method's type can hold
	if m.Ret == "value" {
		bg := &bodyGen{p: pl.p, r: pl.r}
		rtype := m.RetType
		rtype.Ptr = false
		plan.Ctl.RetJSON = bg.valueJSON(rtype, "", 0)
	}
	return plan
}

// applyAuth decides the expected outcome of the security walk for the plan's scripts.
func (pl *planner) applyAuth(plan *ReqPlan) {
	if plan.Expect.Route < 0 {
		return
	}
	rt := pl.routes[plan.Expect.Route]
	if len(rt.Security) == 0 {
		return
	}
	var statuses []int
	for _, alt := range rt.Security {
		d, ok := plan.Auth[checkKey(alt.Scheme, alt.Scopes)]
		if !ok {
			d = plan.AuthDefault
		}
		if d.Kind != "refuse" {
			// approved: the context parameter (if any) sees the derived value of the approving check
			if d.Kind == "derive" && plan.Expect.Outcome == "invoked" {
				for i, prm := range rt.M.Params {
					if prm.Loc == "context" {
						plan.Expect.Args[i] = "ctx=tok-" + plan.ID + "-" + checkKey(alt.Scheme, alt.Scopes)
					}
				}
			}
			return
		}
		statuses = append(statuses, d.Status)
	}
	sort.Ints(statuses)
	plan.Expect.Outcome, plan.Expect.RefuseStatuses, plan.Expect.Args = "refused", statuses, nil
	plan.Expect.Why = "every security alternative refused"
}

func (pl *planner) refusal() AuthDecision {
	d := AuthDecision{Kind: "refuse", Status: projgen.Pick(pl.r, []int{401, 403, 418, 500})}
	d.CancelCtx = pl.r.Chance(1, 4)
	if pl.r.Chance(1, 3) {
		d.Payload = fmt.Sprintf(`{"reason":"denied-%d","code":%d}`, pl.r.Intn(1000), d.Status)
	}
	return d
}

// authScript draws one of the biased callback behaviours for a route.
func (pl *planner) authScript(plan *ReqPlan, kind string) {
	if plan.Expect.Route < 0 {
		return
	}
	rt := pl.routes[plan.Expect.Route]
	plan.Auth = map[string]AuthDecision{}
	alts := rt.Security
	key := func(i int) string { return checkKey(alts[i].Scheme, alts[i].Scopes) }
	switch kind {
	case "approve-all":
	case "derive-all":
		plan.AuthDefault = AuthDecision{Kind: "derive"}
	case "refuse-all":
		for i := range alts {
			plan.Auth[key(i)] = pl.refusal()
		}
		plan.AuthDefault = pl.refusal()
	case "refuse-first":
		if len(alts) > 0 {
			plan.Auth[key(0)] = pl.refusal()
		}
	case "refuse-last":
		if len(alts) > 0 {
			plan.Auth[key(len(alts)-1)] = pl.refusal()
		}
	case "random":
		for i := range alts {
			switch pl.r.Intn(3) {
			case 0:
				plan.Auth[key(i)] = pl.refusal()
			case 1:
				plan.Auth[key(i)] = AuthDecision{Kind: "derive"}
			}
		}
	}
	plan.Tags = append(plan.Tags, "auth:"+kind)
	pl.applyAuth(plan)
}

// stray builds a request that must NOT reach any controller method (or, if it
// happens to match another annotated route, exactly that one).
func (pl *planner) stray(ri int, kind string) *ReqPlan {
	base := pl.build(ri, "stray:"+kind, nil, false)
	rt := pl.routes[ri]
	pathOnly, query, _ := strings.Cut(base.URL, "?")
	segs := strings.Split(strings.TrimPrefix(pathOnly, "/"), "/")
	if pathOnly == "/" {
		segs = nil
	}
	verb := rt.M.Verb
	switch kind {
	case "other-verb":
		for _, v := range []string{"GET", "POST", "PUT", "DELETE", "PATCH"} {
			if v != rt.M.Verb {
				verb = v
				if pl.r.Chance(1, 2) {
					break
				}
			}
		}
	case "extra-segment":
		segs = append(segs, "zz9")
	case "missing-segment":
		if len(segs) == 0 {
			return nil
		}
		segs = segs[:len(segs)-1]
	case "changed-literal":
		changed := false
		for i, s := range rt.Segs {
			if !projgen.IsParamSeg(s) && s != "" {
				segs[i] = s + "q"
				changed = true
				break
			}
		}
		if !changed {
			return nil
		}
	case "other-prefix":
		// this method's route under another controller's prefix
		var other *projgen.Controller
		for ci := range pl.p.Controllers {
			c := &pl.p.Controllers[ci]
			if c.Name != rt.Ctrl.Name && c.Route != rt.Ctrl.Route {
				other = c
			}
		}
		if other == nil {
			return nil
		}
		np := projgen.NormPath(other.Route, rt.M.Route)
		nsegs := projgen.Segments(np)
		own := len(rt.Segs) - len(projgen.Segments(projgen.NormPath("", rt.M.Route)))
		if own < 0 || own > len(segs) {
			return nil
		}
		// keep the concrete values of this route's own (method-level) segments
		mseg := segs[own:]
		pre := nsegs[:len(nsegs)-len(projgen.Segments(projgen.NormPath("", rt.M.Route)))]
		segs = append(append([]string{}, pre...), mseg...)
	case "trailing-slash":
		segs = append(segs, "")
	case "case-variant":
		changed := false
		for i, s := range rt.Segs {
			if !projgen.IsParamSeg(s) && strings.ToUpper(s) != s {
				segs[i] = strings.ToUpper(s)
				changed = true
				break
			}
		}
		if !changed {
			return nil
		}
	}
	base.Verb = verb
	base.URL = "/" + strings.Join(segs, "/")
	if query != "" {
		base.URL += "?" + query
	}
	// reference router decides what, if anything, this request addresses
	var plain []string
	for _, s := range segs {
		u, err := url.PathUnescape(s)
		if err != nil {
			u = s
		}
		plain = append(plain, u)
	}
	hit := matchRoute(pl.routes, verb, plain)
	base.Params = nil
	if hit >= 0 {
		// does a parameter of the matched template carry a value that another same-verb template has as a
		// LITERAL at that position (after an equal prefix)? Routers built on a radix tree that commit to the
		// literal branch answer such paths differently; the finding must be told apart from ordinary strays.
		hr := pl.routes[hit]
		for oi, o := range pl.routes {
			if oi == hit || o.M.Verb != verb {
				continue
			}
			for i := 0; i < len(hr.Segs) && i < len(o.Segs); i++ {
				if projgen.IsParamSeg(hr.Segs[i]) && !projgen.IsParamSeg(o.Segs[i]) && o.Segs[i] == plain[i] {
					base.Tags = append(base.Tags, "value-equals-sibling-literal")
					break
				}
				if !projgen.IsParamSeg(hr.Segs[i]) && !projgen.IsParamSeg(o.Segs[i]) && hr.Segs[i] != o.Segs[i] {
					break
				}
			}
		}
	}
	if hit == -2 {
		base.Expect = Expect{Route: -1, Outcome: "unjudged", Policy: "ambiguous: several equally specific templates match"}
	} else if hit >= 0 {
		// it addresses another annotated route: only dispatch is judged (arguments were built for a different route)
		base.Expect = Expect{Route: hit, OpID: pl.p.OpPrefix + pl.routes[hit].OpID, Outcome: "unjudged", Why: "stray request happens to match another annotated route"}
	} else {
		base.Expect = Expect{Route: -1, Outcome: "not-served"}
	}
	if kind == "trailing-slash" || kind == "case-variant" {
		base.Expect.Policy = "framework policy: " + kind
	}
	// equal to an annotated template up to a trailing slash (and not the route the reference router
	// picked): whether /x and /x/ are one path is framework policy, not judged
	{
		alt := append(append([]string{}, plain...), "")
		if n := len(plain); n > 0 && plain[n-1] == "" {
			alt = plain[:n-1]
		}
		if ah := matchRoute(pl.routes, verb, alt); ah >= 0 && ah != hit {
			base.Expect.Policy = "framework policy: differs from an annotated path by a trailing slash"
		}
	}
	for _, s := range plain {
		if s == "" {
			base.Expect.Policy = "framework policy: empty path segment"
		}
	}
	return base
}
