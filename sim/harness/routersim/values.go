package simrt

import (
	"encoding/base64"
	"fmt"
	"math"
	"strconv"
	"strings"
	"unicode/utf8"

	"simbatch/projgen"
)

// WireVal is one value as the client puts it on the wire plus the reference
// binder's conversion of it ("parse as the declared Go type").
type WireVal struct {
	Raw   string `json:"raw"`
	Canon string `json:"canon"` // canonical rendering of the expected Go value (see canonValue)
	Class string `json:"class"` // plain | boundary | unicode | reserved | slash | empty | spelling
	OK    bool   `json:"ok"`    // converts to the declared type
}

func bits(prim string) int {
	switch prim {
	case "int8", "uint8":
		return 8
	case "int16", "uint16":
		return 16
	case "int32", "uint32", "float32":
		return 32
	case "int", "uint":
		return strconv.IntSize
	}
	return 64
}

// convert is the reference conversion of a wire string to a primitive type.
func convert(prim, raw string) (canon string, ok bool) {
	switch {
	case prim == "string":
		return strconv.Quote(raw), true
	case prim == "bool":
		b, err := strconv.ParseBool(raw)
		if err != nil {
			return "", false
		}
		return strconv.FormatBool(b), true
	case strings.HasPrefix(prim, "int"):
		v, err := strconv.ParseInt(raw, 10, bits(prim))
		if err != nil {
			return "", false
		}
		return strconv.FormatInt(v, 10), true
	case strings.HasPrefix(prim, "uint"):
		v, err := strconv.ParseUint(raw, 10, bits(prim))
		if err != nil {
			return "", false
		}
		return strconv.FormatUint(v, 10), true
	case strings.HasPrefix(prim, "float"):
		v, err := strconv.ParseFloat(raw, bits(prim))
		if err != nil {
			return "", false
		}
		return strconv.FormatFloat(v, 'g', -1, bits(prim)), true
	}
	return "", false
}

func intBounds(prim string) (lo, hi string) {
	b := bits(prim)
	if strings.HasPrefix(prim, "uint") {
		return "0", strconv.FormatUint(math.MaxUint64>>(64-uint(b)), 10)
	}
	return strconv.FormatInt(-1<<(uint(b)-1), 10), strconv.FormatInt(1<<(uint(b)-1)-1, 10)
}

// candidates lists well-formed wire values for a primitive, by class.
func candidates(prim string, loc string) []WireVal {
	mk := func(raw, class string) WireVal {
		c, ok := convert(prim, raw)
		return WireVal{Raw: raw, Canon: c, Class: class, OK: ok}
	}
	var out []WireVal
	switch {
	case prim == "string":
		out = append(out, mk("abc", "plain"), mk("Hello-World_42", "plain"))
		if loc != "header" {
			out = append(out, mk("héllo wörld ✓ 日本", "unicode"), mk("a?b#c%d&e+f=g h;i", "reserved"), mk("x/y/z", "slash"))
		} else {
			out = append(out, mk("a?b#c%d&e+f=g;i", "reserved"), mk("x/y/z", "slash"))
		}
		if loc != "path" {
			out = append(out, mk("", "empty"))
		}
		// a literal percent sign followed by two hex digits: decoding the wire form twice turns it into "SAVEA"
		out = append(out, mk("SAVE%41", "percent-hex"))
		if loc != "header" {
			// leading/trailing blanks belong to the value (header values lose optional whitespace on the wire)
			out = append(out, mk("  pad ded ", "padded"))
		}
	case prim == "bool":
		for _, s := range []string{"true", "false", "1", "0", "t", "f", "T", "F", "TRUE", "FALSE", "True", "False"} {
			out = append(out, mk(s, "spelling"))
		}
	case strings.HasPrefix(prim, "int"), strings.HasPrefix(prim, "uint"):
		lo, hi := intBounds(prim)
		out = append(out, mk("7", "plain"), mk("42", "plain"), mk("0", "boundary"), mk(lo, "boundary"), mk(hi, "boundary"), mk("007", "spelling"))
		if strings.HasPrefix(prim, "int") {
			out = append(out, mk("-1", "plain"), mk("-0", "spelling"), mk("+5", "spelling"))
		}
	case strings.HasPrefix(prim, "float"):
		out = append(out, mk("1.5", "plain"), mk("0", "boundary"), mk("-0", "spelling"), mk("-2.25", "plain"), mk("1e3", "spelling"), mk("1E-2", "spelling"), mk(".5", "spelling"), mk("100", "plain"))
		if prim == "float32" {
			out = append(out, mk("3.4028235e38", "boundary"), mk("16777217", "boundary"))
		} else {
			out = append(out, mk("1.7976931348623157e308", "boundary"), mk("9007199254740993", "boundary"))
		}
	}
	return out
}

// garbled lists wire values that do NOT convert to the primitive.
func garbled(prim string) []WireVal {
	mk := func(raw, class string) WireVal {
		_, ok := convert(prim, raw)
		return WireVal{Raw: raw, Class: class, OK: ok}
	}
	var out []WireVal
	switch {
	case prim == "string":
		return nil // every string converts
	case prim == "bool":
		out = append(out, mk("maybe", "garbled"), mk("yes", "garbled"), mk("2", "garbled"), mk("", "empty"))
	case strings.HasPrefix(prim, "int"), strings.HasPrefix(prim, "uint"):
		lo, hi := intBounds(prim)
		out = append(out, mk("12x", "garbled"), mk("", "empty"), mk("1e3", "garbled"), mk("1.0", "garbled"), mk(" 5", "garbled"), mk("0x10", "garbled"))
		if bits(prim) < 64 {
			// one past the range of the declared width
			if strings.HasPrefix(prim, "uint") {
				h, _ := strconv.ParseUint(hi, 10, 64)
				out = append(out, mk(strconv.FormatUint(h+1, 10), "out-of-range"))
			} else {
				h, _ := strconv.ParseInt(hi, 10, 64)
				l, _ := strconv.ParseInt(lo, 10, 64)
				out = append(out, mk(strconv.FormatInt(h+1, 10), "out-of-range"), mk(strconv.FormatInt(l-1, 10), "out-of-range"))
			}
		} else {
			out = append(out, mk("18446744073709551616", "out-of-range"))
		}
		if strings.HasPrefix(prim, "uint") {
			out = append(out, mk("-1", "out-of-range"))
		}
	case strings.HasPrefix(prim, "float"):
		out = append(out, mk("1.2.3", "garbled"), mk("", "empty"), mk("abc", "garbled"), mk("1,5", "garbled"))
		if prim == "float32" {
			out = append(out, mk("1e39", "out-of-range"))
		} else {
			out = append(out, mk("1e309", "out-of-range"))
		}
	}
	var bad []WireVal
	for _, w := range out {
		if !w.OK {
			bad = append(bad, w)
		}
	}
	return bad
}

// ------------------------------------------------------------- validators

type constraint struct {
	required, omitempty bool
	min, max            *float64 // min/max/gte/lte
	oneof               []string // oneof=a b c (space separated)
}

func parseValidate(v string) (c constraint, known bool) {
	known = true
	for _, tag := range strings.Split(v, ",") {
		tag = strings.TrimSpace(tag)
		if tag == "" {
			continue
		}
		k, arg, _ := strings.Cut(tag, "=")
		switch k {
		case "required":
			c.required = true
		case "omitempty":
			c.omitempty = true
		case "sim_probe":
			// the simulator's own custom validator: always true, only a yield point
		case "enum_1_enum", "enum_2_enum", "enum_3_enum", "enum_4_enum", "enum_5_enum", "enum_6_enum", "enum_7_enum", "enum_8_enum", "enum_9_enum":
			// the validator gleece generates per enum (generateEnumValidator): true for every declared member,
			// and enum-typed parameters and fields only ever carry members when they are judged
		case "min", "gte":
			f, err := strconv.ParseFloat(arg, 64)
			if err != nil {
				return c, false
			}
			c.min = &f
		case "max", "lte":
			f, err := strconv.ParseFloat(arg, 64)
			if err != nil {
				return c, false
			}
			c.max = &f
		case "oneof":
			c.oneof = strings.Fields(arg)
			if len(c.oneof) == 0 {
				return c, false
			}
		default:
			return c, false
		}
	}
	return c, true
}

// satisfies evaluates the small validator vocabulary projgen uses on a value
// of primitive type prim whose canonical rendering is canon. viaPointer: the
// generated code validates parameters through a pointer, where "required"
// means "present" (non-nil), not "non-zero".
func satisfies(validate, prim, canon string, viaPointer bool) (ok, known bool) {
	c, known := parseValidate(validate)
	if !known {
		return false, false
	}
	var size float64
	isZero := false
	switch {
	case prim == "string":
		s, _ := strconv.Unquote(canon)
		size = float64(utf8.RuneCountInString(s))
		isZero = s == ""
	case prim == "bool":
		isZero = canon == "false"
		return !(c.required && !viaPointer && isZero), true
	default:
		f, err := strconv.ParseFloat(canon, 64)
		if err != nil {
			return false, false
		}
		size = f
		isZero = f == 0
	}
	if c.omitempty && isZero {
		return true, true
	}
	if c.required && !viaPointer && isZero {
		return false, true
	}
	if len(c.oneof) > 0 {
		member := false
		for _, o := range c.oneof {
			if prim == "string" {
				if s, _ := strconv.Unquote(canon); s == o {
					member = true
				}
			} else if f, err := strconv.ParseFloat(o, 64); err == nil && f == size {
				member = true
			}
		}
		if !member {
			return false, true
		}
	}
	if c.min != nil && size < *c.min {
		return false, true
	}
	if c.max != nil && size > *c.max {
		return false, true
	}
	return true, true
}

// violating returns a wire value that converts but fails the validator, if one exists.
func violating(validate, prim string) (WireVal, bool) {
	c, known := parseValidate(validate)
	if !known {
		return WireVal{}, false
	}
	var raw string
	switch {
	case prim == "string":
		if len(c.oneof) > 0 {
			raw = strings.Join(c.oneof, "") // what the options read as with the spaces lost
		} else if c.max != nil {
			raw = strings.Repeat("z", int(*c.max)+1)
		} else if c.min != nil && *c.min >= 2 {
			raw = "y"
		} else {
			return WireVal{}, false
		}
	case prim == "bool":
		return WireVal{}, false
	default:
		lo, hi := "", ""
		if strings.HasPrefix(prim, "float") {
			lo, hi = "-1e30", "1e30"
		} else {
			lo, hi = intBounds(prim)
		}
		lof, _ := strconv.ParseFloat(lo, 64)
		hif, _ := strconv.ParseFloat(hi, 64)
		if len(c.oneof) > 0 {
			raw = "4"
			for _, o := range c.oneof {
				if o == raw {
					raw = "6"
				}
			}
		} else if c.max != nil && *c.max+1 <= hif {
			raw = strconv.FormatFloat(*c.max+1, 'f', -1, 64)
		} else if c.min != nil && *c.min-1 >= lof {
			raw = strconv.FormatFloat(*c.min-1, 'f', -1, 64)
		} else {
			return WireVal{}, false
		}
	}
	canon, ok := convert(prim, raw)
	if !ok {
		return WireVal{}, false
	}
	if sat, known := satisfies(validate, prim, canon, true); !known || sat {
		return WireVal{}, false
	}
	return WireVal{Raw: raw, Canon: canon, Class: "violates-validator", OK: true}, true
}

// ------------------------------------------------------------------ bodies

type bodyGen struct {
	p *projgen.Project
	r *projgen.Rand
	// violate: the first top-level field that carries a validator gets a value violating it
	violate  bool
	violated string
	// elemTurn: while set, the struct being rendered is the chosen element of a top-level slice (its fields
	// count as top-level for violate)
	elemTurn bool
}

func (g *bodyGen) findStruct(t projgen.TypeRef) *projgen.Struct {
	for i := range g.p.Structs {
		if g.p.Structs[i].Pkg == t.Pkg && g.p.Structs[i].Name == t.Name {
			return &g.p.Structs[i]
		}
	}
	return nil
}

func (g *bodyGen) enumValues(t projgen.TypeRef) []string {
	for _, e := range g.p.Enums {
		if e.Pkg == t.Pkg && e.Name == t.Name {
			return e.Values
		}
	}
	return nil
}

// primJSON returns a JSON literal of a value of the primitive that satisfies validate.
func (g *bodyGen) primJSON(prim, validate string) string {
	c, _ := parseValidate(validate)
	if len(c.oneof) > 0 {
		o := projgen.Pick(g.r, c.oneof)
		if prim == "string" {
			return strconv.Quote(o)
		}
		return o
	}
	switch {
	case prim == "string":
		n := 3
		if c.min != nil && float64(n) < *c.min {
			n = int(*c.min)
		}
		if c.max != nil && float64(n) > *c.max {
			n = int(*c.max)
		}
		pool := []string{"abc", "héé", "x y", "q/r", "Zed"}
		s := projgen.Pick(g.r, pool)
		for utf8.RuneCountInString(s) < n {
			s += "k"
		}
		rs := []rune(s)
		if len(rs) > n && (c.max != nil) {
			rs = rs[:n]
		}
		return strconv.Quote(string(rs))
	case prim == "bool":
		return projgen.Pick(g.r, []string{"true", "false"})
	case strings.HasPrefix(prim, "float"):
		v := projgen.Pick(g.r, []float64{0.5, 1.25, 3, 12.75})
		if c.min != nil && v < *c.min {
			v = *c.min
		}
		if c.max != nil && v > *c.max {
			v = *c.max
		}
		return strconv.FormatFloat(v, 'g', -1, 64)
	default:
		lo, hi := intBounds(prim)
		lof, _ := strconv.ParseFloat(lo, 64)
		hif, _ := strconv.ParseFloat(hi, 64)
		v := projgen.Pick(g.r, []float64{1, 2, 5, 9, 0, 100})
		if g.r.Chance(1, 6) {
			if strings.HasPrefix(prim, "uint") {
				v = 0
			} else {
				v = -3
			}
		}
		if c.min != nil && v < *c.min {
			v = *c.min
		}
		if c.max != nil && v > *c.max {
			v = *c.max
		}
		if v < lof {
			v = lof
		}
		if v > hif {
			v = hif
		}
		return strconv.FormatFloat(math.Trunc(v), 'f', -1, 64)
	}
}

// valueJSON renders a well-formed JSON value for a type (all fields present).
func (g *bodyGen) valueJSON(t projgen.TypeRef, validate string, depth int) string {
	if t.Map {
		et := t
		et.Map = false
		n := g.r.Range(0, 2)
		if depth >= 3 {
			n = 0
		}
		parts := make([]string, n)
		for i := range parts {
			parts[i] = strconv.Quote([]string{"k-one", "k two"}[i]) + ":" + g.valueJSON(et, "", depth+1)
		}
		return "{" + strings.Join(parts, ",") + "}"
	}
	if t.Slice {
		et := t
		et.Slice, et.Ptr = false, false
		if t.Kind == "prim" && t.Prim == "uint8" {
			n := g.r.Range(0, 3)
			b := make([]byte, n)
			for i := range b {
				b[i] = byte(g.r.Intn(256))
			}
			if n == 0 {
				return `""`
			}
			return strconv.Quote(base64.StdEncoding.EncodeToString(b))
		}
		n := g.r.Range(0, 2)
		if depth >= 3 {
			n = 0
		}
		victim := -1
		if g.violate && depth == 0 && g.violated == "" && et.Kind == "struct" {
			// one element of a top-level slice of structs is to violate a field validator
			n = g.r.Range(1, 3)
			victim = g.r.Intn(n)
			if t.ElemPtr {
				// a nil element in front of the violating one
				n = g.r.Range(2, 3)
				victim = n - 1
			}
		}
		et.ElemPtr = false
		parts := make([]string, n)
		for i := range parts {
			if t.ElemPtr && i != victim && (g.r.Chance(1, 2) || (victim > 0 && i == victim-1)) {
				parts[i] = "null" // a nil element of a slice of pointers
				continue
			}
			prev := g.elemTurn
			g.elemTurn = i == victim
			parts[i] = g.valueJSON(et, "", depth+1)
			g.elemTurn = prev
		}
		return "[" + strings.Join(parts, ",") + "]"
	}
	if t.Ptr {
		et := t
		et.Ptr = false
		if depth >= 3 || g.r.Chance(1, 3) {
			// a nil pointer fails every validator tag except omitempty: only unconstrained pointers may be null
			if strings.TrimSpace(validate) == "" || strings.HasPrefix(validate, "omitempty") {
				return "null"
			}
		}
		return g.valueJSON(et, validate, depth)
	}
	switch t.Kind {
	case "prim", "alias":
		return g.primJSON(t.Prim, validate)
	case "enum":
		vals := g.enumValues(t)
		if len(vals) == 0 {
			return g.primJSON(t.Prim, "")
		}
		return projgen.Pick(g.r, vals) // Go literal text == JSON literal for strings and ints
	case "struct":
		st := g.findStruct(t)
		if st == nil {
			return "{}"
		}
		parts := make([]string, 0, len(st.Fields))
		own := map[string]bool{}
		for _, f := range st.Fields {
			if !f.Embedded {
				own[f.JSON] = true
			}
		}
		for _, f := range st.Fields {
			ft := f.Type
			if f.Embedded {
				// promoted fields appear as members of the embedding object; a member the embedding struct
				// declares itself shadows the promoted one
				inner := g.valueJSON(ft, "", depth)
				for _, kv := range splitMembers(inner) {
					if k, _, _ := strings.Cut(kv, ":"); !own[strings.Trim(k, `"`)] {
						parts = append(parts, kv)
						own[strings.Trim(k, `"`)] = true
					}
				}
				continue
			}
			if ft.Kind == "time" {
				parts = append(parts, strconv.Quote(f.JSON)+":"+projgen.Pick(g.r, []string{`"2024-05-06T07:08:09Z"`, `"1999-12-31T23:59:59+02:00"`}))
				continue
			}
			if ft.Kind == "struct" && depth >= 2 {
				// cut recursion: pointers become null, slices empty, plain nested structs go one level further
				if ft.Ptr {
					parts = append(parts, strconv.Quote(f.JSON)+":null")
					continue
				}
				if ft.Slice {
					parts = append(parts, strconv.Quote(f.JSON)+":[]")
					continue
				}
			}
			if g.violate && g.violated == "" && (depth == 0 || (depth == 1 && g.elemTurn)) && f.Validate != "" && !ft.Slice && !ft.Ptr && (ft.Kind == "prim" || ft.Kind == "alias") {
				if bad, ok := violatingField(f.Validate, ft.Prim); ok {
					g.violated = f.JSON
					parts = append(parts, strconv.Quote(f.JSON)+":"+bad)
					continue
				}
			}
			parts = append(parts, strconv.Quote(f.JSON)+":"+g.valueJSON(ft, f.Validate, depth+1))
		}
		return "{" + strings.Join(parts, ",") + "}"
	}
	return "null"
}

// splitMembers splits the text of a JSON object produced by valueJSON into its top-level "key":value members.
func splitMembers(obj string) []string {
	obj = strings.TrimSpace(obj)
	if len(obj) < 2 || obj[0] != '{' {
		return nil
	}
	obj = obj[1 : len(obj)-1]
	var out []string
	depth, inStr, start := 0, false, 0
	for i := 0; i < len(obj); i++ {
		c := obj[i]
		switch {
		case inStr:
			if c == '\\' {
				i++
			} else if c == '"' {
				inStr = false
			}
		case c == '"':
			inStr = true
		case c == '{' || c == '[':
			depth++
		case c == '}' || c == ']':
			depth--
		case c == ',' && depth == 0:
			out = append(out, obj[start:i])
			start = i + 1
		}
	}
	if strings.TrimSpace(obj[start:]) != "" {
		out = append(out, obj[start:])
	}
	return out
}

func typeString(t projgen.TypeRef) string {
	s := ""
	if t.Ptr {
		s += "*"
	}
	if t.Slice {
		s += "[]"
	}
	if t.Map {
		s += "map[string]"
	}
	if t.Kind == "prim" {
		return s + t.Prim
	}
	return s + projgen.PkgName(t.Pkg) + "." + t.Name
}

func fmtArg(t projgen.TypeRef, canon string) string { return fmt.Sprintf("%s=%s", typeString(t), canon) }

// violatingField returns a JSON literal that violates a struct-field validator
// (fields are validated by value: "required" means non-zero).
func violatingField(validate, prim string) (string, bool) {
	c, known := parseValidate(validate)
	if !known || c.omitempty {
		return "", false
	}
	switch {
	case prim == "string":
		if len(c.oneof) > 0 {
			return strconv.Quote(strings.Join(c.oneof, "")), true
		}
		if c.required || (c.min != nil && *c.min >= 1) {
			return `""`, true
		}
		if c.max != nil {
			return strconv.Quote(strings.Repeat("w", int(*c.max)+1)), true
		}
	case prim == "bool":
		return "", false
	default:
		if w, ok := violating(validate, prim); ok {
			return w.Raw, true
		}
	}
	return "", false
}
