#!/usr/bin/env bash
# Entry point of the deterministic-simulation checks (see DESIGN.md §8).
#   ./check.sh setup
#   ./check.sh <C02|C03|C05|C12|C13|C15|C17|C19> [quick|thorough]
#   ./check.sh replay <file>
#   ./check.sh selftest
# Exit codes: 0 held, 1 violation (VIOLATION line printed), 2 harness trouble.
set -u
cd "$(dirname "$0")"
export VERIF_DIR="$PWD"

TC=/root/go/pkg/mod/golang.org/toolchain@v0.0.1-go1.24.7.linux-amd64/bin
if [ -x "$TC/go" ]; then
  export PATH="$TC:$PATH" GOTOOLCHAIN=local
elif command -v go1.26.8 >/dev/null 2>&1; then
  mkdir -p "$PWD/bin/gofallback"; ln -sf "$(command -v go1.26.8)" "$PWD/bin/gofallback/go"
  export PATH="$PWD/bin/gofallback:$PATH" GOTOOLCHAIN=local
fi
export GOFLAGS=-mod=mod GOPROXY=off GOSUMDB=off GONOSUMDB='*' GONOSUMCHECK=1 GOFLAGS=-mod=mod
export CGO_ENABLED=${CGO_ENABLED:-1}

build_tools() {
  mkdir -p bin
  ( cd sim/tools && go build -o ../../bin/instrument ./cmd/instrument \
      && go build -o ../../bin/gowrap ./cmd/gowrap \
      && go build -o ../../bin/vsim ./cmd/vsim ) || { echo "HARNESS-ERROR: building the tools failed" >&2; exit 2; }
}

need_tools() {
  # tools are rebuilt when missing or older than their sources (cheap: go build cache)
  if [ ! -x bin/vsim ] || [ ! -x bin/instrument ] || [ ! -x bin/gowrap ] || [ -n "$(find sim/tools -newer bin/vsim -name '*.go' -print -quit 2>/dev/null)" ]; then
    build_tools
  fi
}

cmd=${1:-}
case "$cmd" in
  setup)
    build_tools
    echo "setup: tools built"
    ;;
  C13|C19|C15|C17|C02|C03|C05|C12)
    need_tools
    tier=${2:-${VERIF_TIER:-quick}}
    sub=$(echo "$cmd" | tr 'A-Z' 'a-z')
    ulimit -v 67108864 2>/dev/null || true
    exec bin/vsim "$sub" "$tier"
    ;;
  replay)
    need_tools
    exec bin/vsim replay "${2:?replay file}"
    ;;
  selftest)
    need_tools
    exec bin/vsim selftest "${2:-quick}"
    ;;
  *)
    echo "usage: $0 setup | <property> [quick|thorough] | replay <file> | selftest" >&2
    exit 2
    ;;
esac
