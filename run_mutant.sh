#!/usr/bin/env bash
# usage: run_mutant.sh <patch.diff> <check...>   -- applies the patch to /repo, runs the checks (quick), reverts.
set -u
patch=$1; shift
cd /repo || exit 2
if [ -n "$(git status --porcelain)" ]; then echo "repo not clean"; exit 2; fi
git apply "$patch" || { echo "patch does not apply"; exit 2; }
trap 'git -C /repo checkout -- . ; git -C /repo clean -fdq -- . ' EXIT
cd /verif
for c in "$@"; do
  for seed in ${SEEDS:-1}; do
    out=$(VERIF_SEED=$seed ./check.sh $c ${TIER:-quick} 2>&1); rc=$?
    echo "== $c seed=$seed exit=$rc"
    echo "$out" | grep -E "^VIOLATION|signature:|KNOWN-FINDING|HARNESS-ERROR" | head -${MAXL:-8}
  done
done
