#!/usr/bin/env bash
# usage: run_mutant.sh <patch.diff> <check...>
# Harness maintenance: runs the checks against a deliberate defect.
#   default     : a scratch worktree of /repo HEAD under /var/tmp carries the patch and the checks read it
#                 through VERIF_REPO, so /repo stays untouched and other runs are not disturbed
#   INPLACE=1   : applies the patch to /repo itself, runs the checks, reverts (the registered commands'
#                 own path; nothing else may be running)
# SEEDS="1 2 3" TIER=quick|thorough MAXL=<lines shown per run>
set -u
patch=$(readlink -f "$1"); shift
if [ -n "${INPLACE:-}" ]; then
  cd /repo || exit 2
  if [ -n "$(git status --porcelain)" ]; then echo "repo not clean"; exit 2; fi
  git apply "$patch" || { echo "patch does not apply"; exit 2; }
  trap 'git -C /repo checkout -- . ; git -C /repo clean -fdq -- . ' EXIT
else
  wt=/var/tmp/mutrepo.$$
  git -C /repo worktree add -q --detach "$wt" HEAD || exit 2
  trap 'git -C /repo worktree remove --force "$wt"' EXIT
  git -C "$wt" apply "$patch" || { echo "patch does not apply"; exit 2; }
  export VERIF_REPO="$wt"
fi
cd "$(dirname "$(readlink -f "$0")")"
for c in "$@"; do
  for seed in ${SEEDS:-1}; do
    out=$(VERIF_SEED=$seed ./check.sh $c ${TIER:-quick} 2>&1); rc=$?
    echo "== $c seed=$seed exit=$rc"
    echo "$out" | grep -E "^VIOLATION|signature:|KNOWN-FINDING|HARNESS-ERROR" | head -${MAXL:-8}
  done
done
